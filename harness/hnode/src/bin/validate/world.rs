//! The concrete universe behind the small integers of the op lines: peers (ed25519), owners (BLS),
//! chunk contents, register addresses; builders for records, payments and local store content;
//! and the inverse (describe a stored record in the op-line syntax).
use ant_evm::{EncodedPeerId, PaymentQuote, ProofOfPayment, QuotingMetrics, RewardsAddress};
use ant_protocol::storage::{
    try_deserialize_record, try_serialize_record, Chunk, RecordHeader, RecordKind, Scratchpad,
    ScratchpadAddress, Transaction,
};
use ant_registers::{Permissions, Register, RegisterAddress, RegisterCrdt, RegisterOp, SignedRegister};
use bytes::Bytes;
use libp2p::identity::Keypair;
use libp2p::kad::{Record, RecordKey};
use libp2p::PeerId;
use sha3::{Digest, Sha3_256};
use std::collections::BTreeSet;
use std::time::{Duration, SystemTime};
use xor_name::XorName;

pub const STRANGER: u64 = 100;
/// payee ids standing for claimed peer-id bytes that do not decode: `[0xFF,0xFF,0xFF]` / empty
pub const UNDEC_FF: u64 = 999;
pub const UNDEC_EMPTY: u64 = 998;

/// `EncodedPeerId` is a serde newtype over bytes: craft one whose bytes are not a peer id
pub fn encoded_id(payee: u64) -> EncodedPeerId {
    let raw: Option<Vec<u8>> = match payee {
        UNDEC_FF => Some(vec![0xFF, 0xFF, 0xFF]),
        UNDEC_EMPTY => Some(vec![]),
        _ => None,
    };
    match raw {
        Some(bytes) => {
            let enc = rmp_serde::to_vec(&bytes).expect("ser bytes");
            let e: EncodedPeerId = rmp_serde::from_slice(&enc).expect("crafted EncodedPeerId");
            assert!(e.to_peer_id().is_err());
            e
        }
        None => EncodedPeerId::from(peer_id(payee)),
    }
}

pub fn sha3(bytes: &[u8]) -> [u8; 32] {
    let mut h = Sha3_256::new();
    h.update(bytes);
    h.finalize().into()
}

pub fn peer_keypair(i: u64) -> Keypair {
    let mut seed = [0u8; 32];
    seed[0] = 0x51;
    seed[31] = (i + 1) as u8;
    Keypair::ed25519_from_bytes(seed).expect("ed25519 seed")
}
pub fn peer_id(i: u64) -> PeerId {
    PeerId::from(peer_keypair(i).public())
}

pub fn bls_sk(i: u64) -> bls::SecretKey {
    let mut b = [0u8; 32];
    b[30] = 0x77;
    b[31] = (i + 1) as u8;
    bls::SecretKey::from_bytes(b).expect("bls sk")
}

pub fn chunk_bytes(id: u64) -> Vec<u8> {
    format!("verif-chunk-content-{id}").into_bytes()
}

pub fn reg_meta(id: u64) -> XorName {
    XorName(sha3(format!("verif-reg-meta-{id}").as_bytes()))
}
pub fn reg_address(id: u64) -> RegisterAddress {
    RegisterAddress::new(reg_meta(id), bls_sk(id).public_key())
}

/// The bytes whose SHA3-256 is the name behind key number `key` (key number = number of this preimage):
/// `3*i` plain data `i`, `3*o+1` the 48 public-key bytes of owner `o` (scratchpad AND transaction address),
/// `3*r+2` meta ‖ public key of register `r`.  There is no kind tag in an address: a CHUNK whose value is one of
/// the last two byte strings has the very record key of that owner's scratchpad / transactions / register.
pub fn preimage(key: u64) -> Vec<u8> {
    let id = key / 3;
    match key % 3 {
        0 => chunk_bytes(id),
        1 => bls_sk(id).public_key().to_bytes().to_vec(),
        _ => {
            let mut b = reg_meta(id).0.to_vec();
            b.extend_from_slice(&bls_sk(id).public_key().to_bytes());
            b
        }
    }
}
/// key number -> name: sha3 of the preimage with that number
pub fn key_xorname(key: u64) -> [u8; 32] {
    sha3(&preimage(key))
}
pub fn record_key(key: u64) -> RecordKey {
    RecordKey::new(&key_xorname(key))
}
/// inverse of `record_key` over the small universe
pub fn key_number(k: &RecordKey) -> Option<u64> {
    (0..60u64).find(|n| record_key(*n).as_ref() == k.as_ref())
}
pub fn key_str(k: &RecordKey) -> String {
    match key_number(k) {
        Some(n) => n.to_string(),
        None => "?".into(),
    }
}

// ---------------------------------------------------------------- delivered content descriptors

#[derive(Clone, Debug, PartialEq)]
pub enum PadSig {
    Valid,
    /// validly signed, other data than `Valid` for the same counter
    ValidOther,
    /// signed by the owner like `Valid`; `data_encoding` (not covered by the signature) changed afterwards
    ValidEnc,
    Wrong,
    Missing,
}
#[derive(Clone, Debug)]
pub struct TxD {
    pub owner: u64,
    pub t: u64,
    pub valid: bool,
}
#[derive(Clone, Debug, PartialEq)]
pub enum RegBase {
    Good,
    Alt,
    Bad,
}
#[derive(Clone, Debug)]
pub struct OpD {
    pub id: u64,
    pub cls: char, // v | u | f | s (forged signature, claims the owner as source) | z (oversize entry)
}
#[derive(Clone, Debug)]
pub enum DContent {
    Bad,
    Chunk(u64),
    /// `Ck<key>`: a chunk whose bytes are exactly the address preimage number `key` (`Ck1` = the 48 public-key
    /// bytes of owner 0, `Ck2` = meta ‖ pk of register 0, `Ck3` = plain data 1 = `C1`)
    ChunkPre(u64),
    Pad { owner: u64, n: u64, sig: PadSig },
    Txs(Vec<TxD>),
    Reg { id: u64, base: RegBase, ops: Vec<OpD> },
}

#[derive(Clone, Debug)]
pub struct QuoteD {
    pub payee: u64,
    pub signer: u64,
    pub sig: bool,
    pub time: char, // f fresh | b near the boundary but still fine | e expired | u in the future
    pub content: bool,
    pub valid: bool,
    pub amount: u64,
}
#[derive(Clone, Debug)]
pub struct PayD {
    pub quotes: Vec<QuoteD>,
    pub close: Vec<u64>,
}

pub fn parse_content(s: &str) -> Option<DContent> {
    if s == "X" {
        return Some(DContent::Bad);
    }
    let (tag, rest) = s.split_at(1);
    match tag {
        "C" => match rest.strip_prefix('k') {
            Some(k) => Some(DContent::ChunkPre(k.parse().ok()?)),
            None => Some(DContent::Chunk(rest.parse().ok()?)),
        },
        "S" => {
            let p: Vec<&str> = rest.split('.').collect();
            if p.len() != 3 {
                return None;
            }
            let sig = match p[2] {
                "v" => PadSig::Valid,
                "d" => PadSig::ValidOther,
                "e" => PadSig::ValidEnc,
                "w" => PadSig::Wrong,
                "n" => PadSig::Missing,
                _ => return None,
            };
            Some(DContent::Pad { owner: p[0].parse().ok()?, n: p[1].parse().ok()?, sig })
        }
        "T" => {
            if rest == "-" {
                return Some(DContent::Txs(vec![]));
            }
            let mut v = vec![];
            for e in rest.split(',') {
                let p: Vec<&str> = e.split('.').collect();
                if p.len() != 3 {
                    return None;
                }
                v.push(TxD { owner: p[0].parse().ok()?, t: p[1].parse().ok()?, valid: p[2] == "v" });
            }
            Some(DContent::Txs(v))
        }
        "R" => {
            let p: Vec<&str> = rest.split('.').collect();
            if p.len() != 3 {
                return None;
            }
            let base = match p[1] {
                "g" => RegBase::Good,
                "a" => RegBase::Alt,
                "b" => RegBase::Bad,
                _ => return None,
            };
            let mut ops = vec![];
            if p[2] != "-" {
                for e in p[2].split(',') {
                    let (n, c) = e.split_at(e.len() - 1);
                    ops.push(OpD { id: n.parse().ok()?, cls: c.chars().next()? });
                }
            }
            Some(DContent::Reg { id: p[0].parse().ok()?, base, ops })
        }
        _ => None,
    }
}

pub fn parse_pay(s: &str) -> Option<Option<PayD>> {
    if s == "-" {
        return Some(None);
    }
    let (qs, close) = s.split_once(';')?;
    let mut quotes = vec![];
    for q in qs.split(',') {
        let p: Vec<&str> = q.split('.').collect();
        if p.len() != 7 {
            return None;
        }
        quotes.push(QuoteD {
            payee: match p[0] {
                "x" => UNDEC_FF,
                "y" => UNDEC_EMPTY,
                v => v.parse().ok()?,
            },
            signer: p[1].parse().ok()?,
            sig: p[2] == "1",
            time: p[3].chars().next()?,
            content: p[4] == "1",
            valid: p[5] == "1",
            amount: p[6].parse().ok()?,
        });
    }
    let close = if close == "-" { vec![] } else { close.split('.').map(|x| x.parse().ok()).collect::<Option<Vec<u64>>>()? };
    Some(Some(PayD { quotes, close }))
}

// ---------------------------------------------------------------- builders

pub fn build_chunk(id: u64) -> Chunk {
    Chunk::new(Bytes::from(chunk_bytes(id)))
}
/// the chunk whose bytes are address preimage number `key`
pub fn build_chunk_pre(key: u64) -> Chunk {
    Chunk::new(Bytes::from(preimage(key)))
}

#[derive(serde::Serialize)]
struct PadMirror {
    address: ScratchpadAddress,
    data_encoding: u64,
    encrypted_data: Bytes,
    counter: u64,
    signature: Option<bls::Signature>,
}

/// the `data_encoding` every owner of this universe has in the scratchpads it signs
pub const OWNER_ENC: u64 = 7;

pub fn pad_data(owner: u64, n: u64) -> Bytes {
    Bytes::from(format!("verif-pad-{owner}-{n}").into_bytes())
}

pub fn build_pad(owner: u64, n: u64, sig: &PadSig) -> Scratchpad {
    let sk = bls_sk(owner);
    let data = if *sig == PadSig::ValidOther { Bytes::from(format!("verif-pad-other-{owner}-{n}").into_bytes()) } else { pad_data(owner, n) };
    let mut to_sign = n.to_be_bytes().to_vec();
    to_sign.extend_from_slice(&sha3(&data));
    let signature = match sig {
        PadSig::Valid | PadSig::ValidOther | PadSig::ValidEnc => Some(sk.sign(&to_sign)),
        PadSig::Wrong => Some(bls_sk(STRANGER).sign(&to_sign)),
        PadSig::Missing => None,
    };
    let m = PadMirror {
        address: ScratchpadAddress::new(sk.public_key()),
        data_encoding: if *sig == PadSig::ValidEnc { OWNER_ENC + 1 } else { OWNER_ENC },
        encrypted_data: data,
        counter: n,
        signature,
    };
    let bytes = rmp_serde::to_vec(&m).expect("pad mirror");
    rmp_serde::from_slice(&bytes).expect("pad from mirror")
}

/// Transaction ids come in families of three that share owner and content and differ in exactly one other
/// field: id 3k+1 plain, 3k+2 with one output, 3k+3 with one parent (content byte k+1).
pub fn tx_content(t: u64) -> [u8; 32] {
    [(1 + (t.max(1) - 1) / 3) as u8; 32]
}
pub fn tx_id(tx: &Transaction) -> u64 {
    let base = (tx.content[0] as u64).saturating_sub(1) * 3;
    match (tx.parents.len(), tx.outputs.len()) {
        (0, 0) => base + 1,
        (0, 1) => base + 2,
        (1, 0) => base + 3,
        _ => 999,
    }
}
pub fn build_tx(d: &TxD) -> Transaction {
    let owner = bls_sk(d.owner).public_key();
    let signer = if d.valid { bls_sk(d.owner) } else { bls_sk(STRANGER) };
    let other = bls_sk(50).public_key();
    let (parents, outputs) = match (d.t.max(1) - 1) % 3 {
        0 => (vec![], vec![]),
        1 => (vec![], vec![(other, [0x5a; 32])]),
        _ => (vec![other], vec![]),
    };
    Transaction::new(owner, parents, tx_content(d.t), outputs, &signer)
}

pub fn op_entry(id: u64) -> Vec<u8> {
    format!("verif-op-{id}").into_bytes()
}
pub fn build_op(reg: u64, op: &OpD) -> RegisterOp {
    let addr = if op.cls == 'f' { reg_address(reg + 1) } else { reg_address(reg) };
    let mut crdt = RegisterCrdt::new(addr);
    let mut entry = op_entry(op.id);
    if op.cls == 'z' {
        entry.resize(2000, b'.'); // larger than MAX_REG_ENTRY_SIZE
    }
    let (_h, _a, crdt_op) = crdt.write(entry, &BTreeSet::new()).expect("crdt write");
    match op.cls {
        'u' => RegisterOp::new(addr, crdt_op, &bls_sk(STRANGER)),
        's' => {
            // source = owner, signature made by a stranger: splice the stranger's signature onto the owner's op
            let a = rmp_serde::to_vec(&RegisterOp::new(addr, crdt_op.clone(), &bls_sk(reg))).expect("ser op");
            let b = rmp_serde::to_vec(&RegisterOp::new(addr, crdt_op, &bls_sk(STRANGER))).expect("ser op");
            let va: serde_json::Value = rmp_serde::from_slice(&a).expect("op as value");
            let vb: serde_json::Value = rmp_serde::from_slice(&b).expect("op as value");
            let (aa, bb) = (va.as_array().expect("array"), vb.as_array().expect("array"));
            let forged_v = serde_json::Value::Array(vec![aa[0].clone(), aa[1].clone(), aa[2].clone(), bb[3].clone()]);
            let forged = rmp_serde::to_vec(&forged_v).expect("ser forged");
            rmp_serde::from_slice(&forged).expect("forged op")
        }
        _ => RegisterOp::new(addr, crdt_op, &bls_sk(reg)),
    }
}
pub fn build_reg(id: u64, base: &RegBase, ops: &[OpD]) -> SignedRegister {
    let sk = bls_sk(id);
    let perms = if *base == RegBase::Alt { Permissions::new_anyone_can_write() } else { Permissions::new_with([]) };
    let register = Register::new(sk.public_key(), reg_meta(id), perms);
    let bytes = register.bytes().expect("reg bytes");
    let signature = if *base == RegBase::Bad { bls_sk(STRANGER).sign(&bytes) } else { sk.sign(&bytes) };
    let ops: BTreeSet<RegisterOp> = ops.iter().map(|o| build_op(id, o)).collect();
    SignedRegister::new(register, signature, ops)
}

pub struct BuiltPay {
    pub proof: ProofOfPayment,
    /// (quote hash, valid, amount) in proof order
    pub chain: Vec<([u8; 32], bool, u64)>,
}

pub fn build_pay(p: &PayD, address_xorname: [u8; 32], salt: u64) -> BuiltPay {
    let now = SystemTime::now();
    let mut peer_quotes = vec![];
    let mut chain = vec![];
    for (i, q) in p.quotes.iter().enumerate() {
        let content = if q.content { XorName(address_xorname) } else { XorName(sha3(b"verif-some-other-address")) };
        let timestamp = match q.time {
            'f' => now - Duration::from_secs(10),
            'b' => now - Duration::from_secs(3500),
            'e' => now - Duration::from_secs(3700),
            _ => now + Duration::from_secs(1000),
        };
        let quoting_metrics = QuotingMetrics {
            close_records_stored: i + 1,
            max_records: 16384,
            received_payment_count: salt as usize,
            live_time: 1,
            network_density: None,
            network_size: None,
        };
        let rewards_address = RewardsAddress::from([0x11u8; 20]);
        let kp = peer_keypair(q.signer);
        let mut bytes = PaymentQuote::bytes_for_signing(content, timestamp, &quoting_metrics, &rewards_address);
        if !q.sig {
            bytes.push(0xff);
        }
        let signature = kp.sign(&bytes).expect("sign");
        let quote = PaymentQuote {
            content,
            timestamp,
            quoting_metrics,
            rewards_address,
            pub_key: kp.public().encode_protobuf(),
            signature,
        };
        chain.push((quote.hash().0, q.valid, q.amount));
        peer_quotes.push((encoded_id(q.payee), quote));
    }
    BuiltPay { proof: ProofOfPayment { peer_quotes }, chain }
}

pub fn kind_of(name: &str) -> Option<RecordKind> {
    Some(match name {
        "chunkp" => RecordKind::ChunkWithPayment,
        "chunk" => RecordKind::Chunk,
        "padp" => RecordKind::ScratchpadWithPayment,
        "pad" => RecordKind::Scratchpad,
        "txp" => RecordKind::TransactionWithPayment,
        "tx" => RecordKind::Transaction,
        "regp" => RecordKind::RegisterWithPayment,
        "reg" => RecordKind::Register,
        _ => return None,
    })
}
pub const KINDS: [&str; 8] = ["chunkp", "chunk", "padp", "pad", "txp", "tx", "regp", "reg"];
pub fn is_paid(kind: &str) -> bool {
    kind.ends_with('p')
}

/// derived key number of a delivered content (None for `X` and for a transaction vector, whose
/// elements carry their own owners)
pub fn derived_key(c: &DContent) -> Option<u64> {
    match c {
        DContent::Bad => None,
        DContent::Chunk(id) => Some(3 * id),
        DContent::ChunkPre(key) => Some(*key),
        DContent::Pad { owner, .. } => Some(3 * owner + 1),
        DContent::Txs(v) => v.first().map(|t| 3 * t.owner + 1),
        DContent::Reg { id, .. } => Some(3 * id + 2),
    }
}

fn ser<T: serde::Serialize>(v: &T, kind: RecordKind) -> Vec<u8> {
    try_serialize_record(v, kind).expect("serialize").to_vec()
}

/// Build the wire record of a delivery. `single_tx`: client transaction records carry one transaction,
/// replicated ones a vector.
pub fn build_record(kind: &str, rk: u64, content: &DContent, pay: Option<&BuiltPay>, client: bool) -> Record {
    let k = kind_of(kind).expect("kind");
    let value = match content {
        DContent::Bad => {
            let mut v = RecordHeader { kind: k }.try_serialize().expect("hdr").to_vec();
            v.extend_from_slice(&[0xc1, 0xc1, 0xc1, 0xc1]);
            v
        }
        DContent::Chunk(id) => match pay {
            Some(p) => ser(&(p.proof.clone(), build_chunk(*id)), k),
            None => ser(&build_chunk(*id), k),
        },
        DContent::ChunkPre(key) => match pay {
            Some(p) => ser(&(p.proof.clone(), build_chunk_pre(*key)), k),
            None => ser(&build_chunk_pre(*key), k),
        },
        DContent::Pad { owner, n, sig } => match pay {
            Some(p) => ser(&(p.proof.clone(), build_pad(*owner, *n, sig)), k),
            None => ser(&build_pad(*owner, *n, sig), k),
        },
        DContent::Txs(v) => {
            let txs: Vec<Transaction> = v.iter().map(build_tx).collect();
            match pay {
                Some(p) => ser(&(p.proof.clone(), txs[0].clone()), k),
                None if client => ser(&txs[0], k),
                None => ser(&txs, k),
            }
        }
        DContent::Reg { id, base, ops } => match pay {
            Some(p) => ser(&(p.proof.clone(), build_reg(*id, base, ops)), k),
            None => ser(&build_reg(*id, base, ops), k),
        },
    };
    Record { key: record_key(rk), value, publisher: None, expires: None }
}

// ---------------------------------------------------------------- local store content

/// Parse one stored-content descriptor (`C`, `S5`, `S5i`, `T1.2`, `R1.2`, `R`, `A1`) into the record held at `key`.
pub fn build_stored(key: u64, desc: &str) -> Option<Record> {
    let id = key / 3;
    let (tag, rest) = desc.split_at(1);
    let value = match tag {
        // the chunk whose own address is this key (whatever else derives the same key)
        "C" => ser(&build_chunk_pre(key), RecordKind::Chunk),
        "S" => {
            let (n, sig) = match rest.strip_suffix('i') {
                Some(n) => (n, PadSig::Wrong),
                None => (rest, PadSig::Valid),
            };
            ser(&build_pad(id, n.parse().ok()?, &sig), RecordKind::Scratchpad)
        }
        "T" => {
            let txs: Vec<Transaction> = rest
                .split('.')
                .map(|t| t.parse().ok().map(|t| build_tx(&TxD { owner: id, t, valid: true })))
                .collect::<Option<Vec<_>>>()?;
            let set: BTreeSet<Transaction> = txs.into_iter().collect();
            ser(&set.into_iter().collect::<Vec<_>>(), RecordKind::Transaction)
        }
        "R" | "A" => {
            let ops: Vec<OpD> = if rest.is_empty() {
                vec![]
            } else {
                rest.split('.').map(|o| o.parse().ok().map(|id| OpD { id, cls: 'v' })).collect::<Option<Vec<_>>>()?
            };
            let base = if tag == "A" { RegBase::Alt } else { RegBase::Good };
            ser(&build_reg(id, &base, &ops), RecordKind::Register)
        }
        _ => return None,
    };
    Some(Record { key: record_key(key), value, publisher: None, expires: None })
}

/// Describe a record (as held in the store / as put by the node) in the descriptor syntax, checking
/// signatures and content independently of the node code (bls / sha3 directly).
pub fn describe(key: &RecordKey, rec: &Record) -> String {
    let Ok(h) = RecordHeader::from_record(rec) else { return "?hdr".into() };
    let kn = key_number(key);
    match h.kind {
        RecordKind::Chunk => match try_deserialize_record::<Chunk>(rec) {
            Ok(c) => {
                if kn.map(|k| c.value().as_ref() == preimage(k).as_slice()).unwrap_or(false) {
                    "C".into()
                } else {
                    "C?".into()
                }
            }
            Err(_) => "?chunk".into(),
        },
        RecordKind::Scratchpad => match try_deserialize_record::<Scratchpad>(rec) {
            Ok(p) => {
                let mut to_sign = p.count().to_be_bytes().to_vec();
                to_sign.extend_from_slice(&sha3(p.encrypted_data()));
                // independent validity: signature by the owner named in the address over counter ++ sha3(data)
                let enc = rmp_serde::to_vec(&p).unwrap_or_default();
                let sig_ok = pad_signature(&enc).map(|s| p.owner().verify(&s, &to_sign)).unwrap_or(false);
                // `e`: the owner's signature verifies, but a stored field it does not cover (`data_encoding`) is
                // not what the owner had in the scratchpad it signed
                let enc_ok = p.data_encoding() == OWNER_ENC;
                format!("S{}{}", p.count(), if !sig_ok { "i" } else if !enc_ok { "e" } else { "" })
            }
            Err(_) => "?pad".into(),
        },
        RecordKind::Transaction => match try_deserialize_record::<Vec<Transaction>>(rec) {
            Ok(txs) => {
                let mut ids: Vec<String> = vec![];
                let mut sorted: Vec<(u64, String)> = txs
                    .iter()
                    .map(|t| {
                        let id = tx_id(t);
                        let ok = t.owner.verify(&t.signature, Transaction::bytes_to_sign(&t.owner, &t.parents, &t.content, &t.outputs));
                        (id, format!("{id}{}", if ok { "" } else { "!" }))
                    })
                    .collect();
                sorted.sort();
                for (_, s) in sorted {
                    ids.push(s);
                }
                format!("T{}", ids.join("."))
            }
            Err(_) => "?txs".into(),
        },
        RecordKind::Register => match try_deserialize_record::<SignedRegister>(rec) {
            Ok(r) => {
                let alt = r.base_register().permissions().can_anyone_write();
                // owner signature over the base register, checked with bls directly
                let base_ok = rmp_serde::to_vec(&r)
                    .ok()
                    .and_then(|e| rmp_serde::from_slice::<(Register, bls::Signature, serde::de::IgnoredAny)>(&e).ok())
                    .map(|(reg, sig, _)| reg.bytes().map(|b| reg.owner().verify(&sig, b)).unwrap_or(false))
                    .unwrap_or(false);
                let mut ids: Vec<(u64, String)> = r
                    .ops()
                    .iter()
                    .map(|op| {
                        let e = rmp_serde::to_vec(op).unwrap_or_default();
                        let id = (0..10u64).find(|i| contains_sub(&e, &op_entry(*i))).unwrap_or(999);
                        // a permitted operation: for this register, small enough, and (unless anyone may write)
                        // from a permitted writer with a valid signature
                        let ok = op.address() == *r.address()
                            && e.len() < 1400
                            && (alt || (r.base_register().permissions().can_write(&op.source()) && op.verify_signature(&op.source()).is_ok()));
                        (id, format!("{id}{}", if ok { "" } else { "!" }))
                    })
                    .collect();
                ids.sort();
                let s: Vec<String> = ids.into_iter().map(|(_, s)| s).collect();
                format!("{}{}{}", if alt { "A" } else { "R" }, if base_ok { "" } else { "!" }, s.join("."))
            }
            Err(_) => "?reg".into(),
        },
        other => format!("?kind{:?}", other),
    }
}

fn contains_sub(hay: &[u8], needle: &[u8]) -> bool {
    hay.windows(needle.len()).any(|w| w == needle)
}

#[derive(serde::Deserialize)]
struct PadMirrorDe {
    #[allow(dead_code)]
    address: ScratchpadAddress,
    #[allow(dead_code)]
    data_encoding: u64,
    #[allow(dead_code)]
    encrypted_data: Bytes,
    #[allow(dead_code)]
    counter: u64,
    signature: Option<bls::Signature>,
}
fn pad_signature(enc: &[u8]) -> Option<bls::Signature> {
    rmp_serde::from_slice::<PadMirrorDe>(enc).ok()?.signature
}

/// The address (xorname) the stored record's own content/owner determines, computed with sha3 directly.
pub fn derived_xorname_of_stored(rec: &Record) -> Option<Vec<[u8; 32]>> {
    let h = RecordHeader::from_record(rec).ok()?;
    match h.kind {
        RecordKind::Chunk => {
            let c: Chunk = try_deserialize_record(rec).ok()?;
            Some(vec![sha3(c.value())])
        }
        RecordKind::Scratchpad => {
            let p: Scratchpad = try_deserialize_record(rec).ok()?;
            Some(vec![sha3(&p.owner().to_bytes())])
        }
        RecordKind::Transaction => {
            let t: Vec<Transaction> = try_deserialize_record(rec).ok()?;
            Some(t.iter().map(|t| sha3(&t.owner.to_bytes())).collect())
        }
        RecordKind::Register => {
            let r: SignedRegister = try_deserialize_record(rec).ok()?;
            let a = r.address();
            let mut b = a.meta().0.to_vec();
            b.extend_from_slice(&a.owner().to_bytes());
            Some(vec![sha3(&b)])
        }
        _ => None,
    }
}
