//! Local JSON-RPC stub standing in for the payment vault contract (`EvmNetwork::Custom`).
//! A blocking loopback HTTP/1.1 server on its own threads; answers `eth_call` of `verifyPayment`
//! with the ABI encoding (evmlib's own `sol!` types) of the fixed-size `PaymentVerificationResult[3]`.
//! Validity and amountPaid are configured per quote hash by the test case. Like the deployed contract,
//! a call whose input does not have exactly three entries reverts.
use alloy::primitives::{FixedBytes, U256};
use alloy::sol_types::SolCall;
use evmlib::contract::payment_vault::interface::IPaymentVault;
use std::collections::HashMap;
use std::io::{Read, Write};
use std::net::{TcpListener, TcpStream};
use std::sync::{Arc, Mutex};

#[derive(Default)]
pub struct StubState {
    pub answers: HashMap<[u8; 32], (bool, u64)>,
    /// quote hashes of every verifyPayment call received, in order
    pub log: Vec<Vec<[u8; 32]>>,
    pub unexpected: Vec<String>,
}

#[derive(Clone)]
pub struct Stub {
    pub port: u16,
    pub state: Arc<Mutex<StubState>>,
}

pub fn start() -> Stub {
    let listener = TcpListener::bind("127.0.0.1:0").expect("bind loopback");
    let port = listener.local_addr().expect("addr").port();
    let state = Arc::new(Mutex::new(StubState::default()));
    let st = state.clone();
    std::thread::spawn(move || {
        for conn in listener.incoming() {
            let Ok(conn) = conn else { continue };
            let st = st.clone();
            std::thread::spawn(move || serve(conn, st));
        }
    });
    Stub { port, state }
}

fn serve(mut conn: TcpStream, st: Arc<Mutex<StubState>>) {
    let _ = conn.set_nodelay(true);
    let mut buf: Vec<u8> = vec![];
    loop {
        // read one request
        let (head_end, content_len) = loop {
            if let Some(p) = find(&buf, b"\r\n\r\n") {
                let head = String::from_utf8_lossy(&buf[..p]).to_ascii_lowercase();
                let cl = head
                    .lines()
                    .find_map(|l| l.strip_prefix("content-length:").map(|v| v.trim().parse::<usize>().unwrap_or(0)))
                    .unwrap_or(0);
                break (p + 4, cl);
            }
            let mut tmp = [0u8; 4096];
            match conn.read(&mut tmp) {
                Ok(0) | Err(_) => return,
                Ok(n) => buf.extend_from_slice(&tmp[..n]),
            }
        };
        while buf.len() < head_end + content_len {
            let mut tmp = [0u8; 4096];
            match conn.read(&mut tmp) {
                Ok(0) | Err(_) => return,
                Ok(n) => buf.extend_from_slice(&tmp[..n]),
            }
        }
        let body = buf[head_end..head_end + content_len].to_vec();
        buf.drain(..head_end + content_len);
        let reply = answer(&body, &st);
        let resp = format!(
            "HTTP/1.1 200 OK\r\ncontent-type: application/json\r\ncontent-length: {}\r\n\r\n{}",
            reply.len(),
            reply
        );
        if conn.write_all(resp.as_bytes()).is_err() {
            return;
        }
    }
}

fn find(h: &[u8], n: &[u8]) -> Option<usize> {
    h.windows(n.len()).position(|w| w == n)
}

fn answer(body: &[u8], st: &Arc<Mutex<StubState>>) -> String {
    let v: serde_json::Value = serde_json::from_slice(body).unwrap_or(serde_json::Value::Null);
    if let Some(arr) = v.as_array() {
        let parts: Vec<String> = arr.iter().map(|r| answer_one(r, st)).collect();
        return format!("[{}]", parts.join(","));
    }
    answer_one(&v, st)
}

fn answer_one(v: &serde_json::Value, st: &Arc<Mutex<StubState>>) -> String {
    let id = v.get("id").cloned().unwrap_or(serde_json::Value::Null);
    let method = v.get("method").and_then(|m| m.as_str()).unwrap_or("");
    let ok = |result: serde_json::Value| serde_json::json!({"jsonrpc":"2.0","id":id,"result":result}).to_string();
    let err = |code: i64, msg: &str| serde_json::json!({"jsonrpc":"2.0","id":id,"error":{"code":code,"message":msg}}).to_string();
    match method {
        "eth_chainId" => ok(serde_json::json!("0x1")),
        "eth_blockNumber" => ok(serde_json::json!("0x1")),
        "eth_call" => {
            let p0 = v.get("params").and_then(|p| p.get(0)).cloned().unwrap_or_default();
            let data = p0.get("input").or_else(|| p0.get("data")).and_then(|d| d.as_str()).unwrap_or("0x");
            let bytes = hex::decode(data.trim_start_matches("0x")).unwrap_or_default();
            match IPaymentVault::verifyPaymentCall::abi_decode(&bytes, true) {
                Ok(call) => {
                    let hashes: Vec<[u8; 32]> = call._payments.iter().map(|p| p.quoteHash.0).collect();
                    let mut g = st.lock().expect("stub lock");
                    g.log.push(hashes.clone());
                    if hashes.len() != 3 {
                        return err(3, "execution reverted: InvalidInputLength");
                    }
                    let mut results: Vec<IPaymentVault::PaymentVerificationResult> = vec![];
                    for h in &hashes {
                        let (valid, amount) = g.answers.get(h).cloned().unwrap_or((false, 0));
                        results.push(IPaymentVault::PaymentVerificationResult {
                            quoteHash: FixedBytes::<32>::from(*h),
                            amountPaid: U256::from(amount),
                            isValid: valid,
                        });
                    }
                    let arr: [IPaymentVault::PaymentVerificationResult; 3] = [results[0].clone(), results[1].clone(), results[2].clone()];
                    let enc = IPaymentVault::verifyPaymentCall::abi_encode_returns(&(arr,));
                    ok(serde_json::json!(format!("0x{}", hex::encode(enc))))
                }
                Err(e) => {
                    st.lock().expect("stub lock").unexpected.push(format!("eth_call undecodable: {e}"));
                    err(-32000, "unknown call")
                }
            }
        }
        other => {
            st.lock().expect("stub lock").unexpected.push(format!("method {other}"));
            err(-32601, "method not found")
        }
    }
}
