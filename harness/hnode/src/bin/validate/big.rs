//! C04 "oversized ones are refused", on the paths that do not go through `RecordStore::put`:
//! `big <path> <kind> <delta>` builds a well-formed record (valid content, right key, valid payment for the paid
//! kinds) whose serialised value is exactly `MAX_PACKET_SIZE + delta` bytes long and hands it to the real
//! `Node::validate_and_store_record` (path c) / `Node::store_replicated_in_record` (path r).
//! kinds: chunk chunkp pad padp (valid records) junk junkp (canonical header + filler, exact length).  Output: `<result class> puts=<number of PutLocalRecord>`.
use crate::world::*;
use ant_protocol::storage::{try_serialize_record, Chunk, RecordKind, Scratchpad, ScratchpadAddress, Transaction};
use bytes::Bytes;
use libp2p::kad::{Record, RecordKey};

pub const LIMIT: usize = ant_networking::MAX_PACKET_SIZE;
/// see `build`
pub const SHIFT: usize = 64;

#[derive(serde::Serialize)]
struct PadMirror {
    address: ScratchpadAddress,
    data_encoding: u64,
    encrypted_data: Bytes,
    counter: u64,
    signature: Option<bls::Signature>,
}

fn big_pad(payload: usize) -> Scratchpad {
    let sk = bls_sk(0);
    let data = Bytes::from(vec![0x2au8; payload]);
    let mut to_sign = 1u64.to_be_bytes().to_vec();
    to_sign.extend_from_slice(&sha3(&data));
    let m = PadMirror {
        address: ScratchpadAddress::new(sk.public_key()),
        data_encoding: 7,
        encrypted_data: data,
        counter: 1,
        signature: Some(sk.sign(&to_sign)),
    };
    let bytes = rmp_serde::to_vec(&m).expect("pad mirror");
    rmp_serde::from_slice(&bytes).expect("pad from mirror")
}

fn value_of(kind: &str, payload: usize, pay: Option<&BuiltPay>) -> (Vec<u8>, [u8; 32]) {
    let k = kind_of(kind).expect("kind");
    let ser = |v: Vec<u8>| v;
    match kind {
        "chunk" | "chunkp" => {
            let c = Chunk::new(Bytes::from(vec![0x2au8; payload]));
            let x = sha3(c.value());
            let v = match pay {
                Some(p) => try_serialize_record(&(p.proof.clone(), c), k),
                None => try_serialize_record(&c, k),
            };
            (ser(v.expect("serialize").to_vec()), x)
        }
        _ => {
            let p = big_pad(payload);
            let x = sha3(&bls_sk(0).public_key().to_bytes());
            let v = match pay {
                Some(pp) => try_serialize_record(&(pp.proof.clone(), p), k),
                None => try_serialize_record(&p, k),
            };
            (ser(v.expect("serialize").to_vec()), x)
        }
    }
}

/// the address (xorname) the content of a big record of `kind` with `payload` bytes determines
pub fn address_of(kind: &str, payload: usize) -> [u8; 32] {
    match kind {
        "chunk" | "chunkp" => sha3(&vec![0x2au8; payload]),
        _ => sha3(&bls_sk(0).public_key().to_bytes()),
    }
}

/// A record of `kind` whose value is `target` bytes long.  The payment (if any) must be for the content's
/// address, which for a chunk depends on the payload length: `pay_for(address)` builds it.  Signatures and hashes
/// are MessagePack arrays of integers of varying width, so the length of a signed record is not an affine function
/// of its payload: an unsigned chunk (and junk) gets exactly `target` bytes; a signed record (pad, padp, chunkp) gets a
/// length within 63 bytes of `target ± 64` (away from the limit), hence strictly on `target`'s side of `LIMIT`.
/// kinds `junk` / `junkp`: a canonical `Chunk` / `ChunkWithPayment` header followed by filler, exactly `target` bytes.
pub fn build(kind: &str, target: usize, pay_for: &mut dyn FnMut([u8; 32]) -> Option<BuiltPay>) -> Option<Record> {
    if kind == "txm" || kind == "txmp" {
        return merge_incoming(kind, target, pay_for);
    }
    if kind == "junk" || kind == "junkp" {
        let k = if kind == "junk" { RecordKind::Chunk } else { RecordKind::ChunkWithPayment };
        let mut v = ant_protocol::storage::RecordHeader { kind: k }.try_serialize().expect("hdr").to_vec();
        v.resize(target.max(v.len()), 0x2a);
        if v.len() != target {
            return None;
        }
        return Some(Record { key: record_key(0), value: v, publisher: None, expires: None });
    }
    // signed kinds: aim 64 bytes further away from the limit and accept anything within 63 bytes of that aim, so the
    // record is strictly on the asked side of LIMIT whatever the jitter (the Lean driver applies the same shift)
    let signed = kind != "chunk";
    let target = if !signed {
        target
    } else if target >= LIMIT {
        target + SHIFT
    } else {
        target.saturating_sub(SHIFT)
    };
    let dist = |len: usize| (len as i64 - target as i64).abs();
    let mut best: Option<Record> = None;
    let mut payload = target.saturating_sub(4096);
    for _ in 0..12 {
        let pay = pay_for(address_of(kind, payload));
        let (v, x) = value_of(kind, payload, pay.as_ref());
        let len = v.len();
        if len == target {
            return Some(Record { key: RecordKey::new(&x), value: v, publisher: None, expires: None });
        }
        if signed && dist(len) < SHIFT as i64 && best.as_ref().map(|b| dist(len) < dist(b.value.len())).unwrap_or(true) {
            best = Some(Record { key: RecordKey::new(&x), value: v, publisher: None, expires: None });
        }
        let next = payload as i64 + (target as i64 - len as i64);
        if next < 0 {
            break;
        }
        payload = next as usize;
    }
    best
}

// ---------------------------------------------------------------- the MERGED record (`bigm`)

/// see `merge_parts`
pub const SHIFT_M: usize = 512;

/// a validly signed transaction of owner 0 with `n` outputs (content byte `c`): `outputs` is unbounded
pub fn fat_tx(c: u8, n: usize) -> Transaction {
    let other = bls_sk(50).public_key();
    Transaction::new(bls_sk(0).public_key(), vec![], [c; 32], vec![(other, [0x5a; 32]); n], &bls_sk(0))
}

pub fn tx_record_len(txs: &[Transaction]) -> usize {
    try_serialize_record(&txs.to_vec(), RecordKind::Transaction).expect("serialize").len()
}

/// Two transactions of owner 0 (key 1), each well below the limit on its own, whose UNION re-serialised as one
/// `Transaction` record is `target` bytes long up to the jitter of signature encodings: the aim is moved `SHIFT_M`
/// bytes further away from the limit and anything within `SHIFT_M - 1` of the aim is accepted (the Lean driver applies
/// the same shift), so the merged record is strictly on `target`'s side of `LIMIT`.  Returns (held, incoming, merged length).
pub fn merge_parts(target: usize) -> Option<(Transaction, Transaction, usize)> {
    // signing and serialising megabytes is slow in a debug build: one computation per target
    static CACHE: std::sync::Mutex<Option<(usize, Option<(Transaction, Transaction, usize)>)>> = std::sync::Mutex::new(None);
    let mut g = CACHE.lock().expect("cache");
    if let Some((t, v)) = g.as_ref() {
        if *t == target {
            return v.clone();
        }
    }
    let v = merge_parts_uncached(target);
    *g = Some((target, v.clone()));
    v
}

fn merge_parts_uncached(target: usize) -> Option<(Transaction, Transaction, usize)> {
    let aim = if target >= LIMIT { target + SHIFT_M } else { target.saturating_sub(SHIFT_M) };
    let l0 = tx_record_len(&[fat_tx(0x41, 0), fat_tx(0x42, 0)]);
    let l1 = tx_record_len(&[fat_tx(0x41, 1), fat_tx(0x42, 0)]);
    let per = l1.checked_sub(l0).filter(|p| *p > 0)?;
    let mut n = aim.saturating_sub(l0) / per;
    for _ in 0..6 {
        let (a, b) = (fat_tx(0x41, n / 2), fat_tx(0x42, n - n / 2));
        let len = tx_record_len(&[a.clone(), b.clone()]);
        if (len as i64 - aim as i64).abs() < SHIFT_M as i64 {
            return Some((a, b, len));
        }
        let next = n as i64 + (aim as i64 - len as i64) / per as i64;
        if next < 0 {
            return None;
        }
        n = next as usize;
    }
    None
}

/// the record the node holds before the `bigm` delivery: the transaction set {held}
pub fn merge_held(target: usize) -> Option<Record> {
    let (a, _, _) = merge_parts(target)?;
    let v = try_serialize_record(&vec![a], RecordKind::Transaction).ok()?.to_vec();
    Some(Record { key: record_key(1), value: v, publisher: None, expires: None })
}

/// the delivered record: `txmp` = `TransactionWithPayment` (client path; the payment may be bad: the key is held),
/// `txm` = a replicated vector
pub fn merge_incoming(kind: &str, target: usize, pay_for: &mut dyn FnMut([u8; 32]) -> Option<BuiltPay>) -> Option<Record> {
    let (_, b, _) = merge_parts(target)?;
    let v = match kind {
        "txmp" => {
            let pay = pay_for(key_xorname(1))?;
            try_serialize_record(&(pay.proof.clone(), b), RecordKind::TransactionWithPayment).ok()?.to_vec()
        }
        _ => try_serialize_record(&vec![b], RecordKind::Transaction).ok()?.to_vec(),
    };
    Some(Record { key: record_key(1), value: v, publisher: None, expires: None })
}
