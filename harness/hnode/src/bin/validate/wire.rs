//! Structure-aware wire tampering: a generic MessagePack value tree (what `rmp_serde` emits for the
//! record types), node enumeration, subtree substitution and same-shape mutation.
use serde::de::{MapAccess, SeqAccess, Visitor};
use serde::ser::{SerializeMap, SerializeSeq};
use serde::{Deserialize, Deserializer, Serialize, Serializer};

#[derive(Clone, Debug, PartialEq)]
pub enum V {
    Nil,
    Bool(bool),
    U(u64),
    I(i64),
    F(f64),
    Str(String),
    Bin(Vec<u8>),
    Arr(Vec<V>),
    Map(Vec<(V, V)>),
}

impl Serialize for V {
    fn serialize<S: Serializer>(&self, s: S) -> Result<S::Ok, S::Error> {
        match self {
            V::Nil => s.serialize_unit(),
            V::Bool(b) => s.serialize_bool(*b),
            V::U(u) => s.serialize_u64(*u),
            V::I(i) => s.serialize_i64(*i),
            V::F(f) => s.serialize_f64(*f),
            V::Str(x) => s.serialize_str(x),
            V::Bin(b) => s.serialize_bytes(b),
            V::Arr(a) => {
                let mut q = s.serialize_seq(Some(a.len()))?;
                for e in a {
                    q.serialize_element(e)?;
                }
                q.end()
            }
            V::Map(m) => {
                let mut q = s.serialize_map(Some(m.len()))?;
                for (k, v) in m {
                    q.serialize_entry(k, v)?;
                }
                q.end()
            }
        }
    }
}

struct VV;
impl<'de> Visitor<'de> for VV {
    type Value = V;
    fn expecting(&self, f: &mut std::fmt::Formatter) -> std::fmt::Result {
        f.write_str("any msgpack value")
    }
    fn visit_bool<E>(self, v: bool) -> Result<V, E> {
        Ok(V::Bool(v))
    }
    fn visit_i64<E>(self, v: i64) -> Result<V, E> {
        Ok(if v >= 0 { V::U(v as u64) } else { V::I(v) })
    }
    fn visit_u64<E>(self, v: u64) -> Result<V, E> {
        Ok(V::U(v))
    }
    fn visit_f64<E>(self, v: f64) -> Result<V, E> {
        Ok(V::F(v))
    }
    fn visit_str<E>(self, v: &str) -> Result<V, E> {
        Ok(V::Str(v.to_string()))
    }
    fn visit_string<E>(self, v: String) -> Result<V, E> {
        Ok(V::Str(v))
    }
    fn visit_bytes<E>(self, v: &[u8]) -> Result<V, E> {
        Ok(V::Bin(v.to_vec()))
    }
    fn visit_byte_buf<E>(self, v: Vec<u8>) -> Result<V, E> {
        Ok(V::Bin(v))
    }
    fn visit_none<E>(self) -> Result<V, E> {
        Ok(V::Nil)
    }
    fn visit_unit<E>(self) -> Result<V, E> {
        Ok(V::Nil)
    }
    fn visit_some<D: Deserializer<'de>>(self, d: D) -> Result<V, D::Error> {
        V::deserialize(d)
    }
    fn visit_newtype_struct<D: Deserializer<'de>>(self, d: D) -> Result<V, D::Error> {
        V::deserialize(d)
    }
    fn visit_seq<A: SeqAccess<'de>>(self, mut a: A) -> Result<V, A::Error> {
        let mut v = vec![];
        while let Some(e) = a.next_element::<V>()? {
            v.push(e);
        }
        Ok(V::Arr(v))
    }
    fn visit_map<A: MapAccess<'de>>(self, mut a: A) -> Result<V, A::Error> {
        let mut v = vec![];
        while let Some((k, x)) = a.next_entry::<V, V>()? {
            v.push((k, x));
        }
        Ok(V::Map(v))
    }
}
impl<'de> Deserialize<'de> for V {
    fn deserialize<D: Deserializer<'de>>(d: D) -> Result<V, D::Error> {
        d.deserialize_any(VV)
    }
}

pub fn decode(bytes: &[u8]) -> Option<V> {
    rmp_serde::from_slice(bytes).ok()
}
pub fn encode(v: &V) -> Vec<u8> {
    rmp_serde::to_vec(v).expect("encode value")
}

impl V {
    /// a byte string in either of the two forms serde emits (bin, or an array of small integers)
    pub fn as_bytes(&self) -> Option<Vec<u8>> {
        match self {
            V::Bin(b) => Some(b.clone()),
            V::Arr(a) if !a.is_empty() && a.iter().all(|e| matches!(e, V::U(x) if *x < 256)) => {
                Some(a.iter().map(|e| if let V::U(x) = e { *x as u8 } else { 0 }).collect())
            }
            _ => None,
        }
    }
    fn is_leaf(&self) -> bool {
        match self {
            V::Arr(a) => a.is_empty() || self.as_bytes().is_some(),
            V::Map(m) => m.is_empty(),
            _ => true,
        }
    }
    pub fn get(&self, path: &[usize]) -> Option<&V> {
        let Some((h, t)) = path.split_first() else { return Some(self) };
        match self {
            V::Arr(a) if !self.is_leaf() => a.get(*h)?.get(t),
            V::Map(m) => m.get(*h)?.1.get(t),
            _ => None,
        }
    }
    pub fn set(&mut self, path: &[usize], new: V) -> bool {
        let Some((h, t)) = path.split_first() else {
            *self = new;
            return true;
        };
        let leaf = self.is_leaf();
        match self {
            V::Arr(a) if !leaf => a.get_mut(*h).map(|e| e.set(t, new)).unwrap_or(false),
            V::Map(m) => m.get_mut(*h).map(|e| e.1.set(t, new)).unwrap_or(false),
            _ => false,
        }
    }
    /// paths of all nodes (inner nodes and leaves), pre-order; byte strings are leaves
    pub fn nodes(&self) -> Vec<Vec<usize>> {
        fn go(v: &V, cur: &mut Vec<usize>, out: &mut Vec<Vec<usize>>) {
            out.push(cur.clone());
            if v.is_leaf() {
                return;
            }
            match v {
                V::Arr(a) => {
                    for (i, e) in a.iter().enumerate() {
                        cur.push(i);
                        go(e, cur, out);
                        cur.pop();
                    }
                }
                V::Map(m) => {
                    for (i, (_, e)) in m.iter().enumerate() {
                        cur.push(i);
                        go(e, cur, out);
                        cur.pop();
                    }
                }
                _ => {}
            }
        }
        let mut out = vec![];
        go(self, &mut vec![], &mut out);
        out
    }
    /// an arbitrary other value of the same shape
    pub fn mutated(&self, which: u8) -> V {
        match self {
            V::Nil => V::U(0),
            V::Bool(b) => V::Bool(!b),
            V::U(u) => match which {
                0 => V::U(u.wrapping_add(1)),
                1 => V::U(0),
                _ => V::U(u64::MAX),
            },
            V::I(i) => V::I(i.wrapping_add(1)),
            V::F(f) => V::F(f + 1.0),
            V::Str(s) => V::Str(format!("{s}x")),
            V::Bin(b) => {
                let mut b = b.clone();
                match which {
                    0 => {
                        if let Some(x) = b.first_mut() {
                            *x ^= 1;
                        } else {
                            b.push(1);
                        }
                    }
                    1 => {
                        b.pop();
                    }
                    _ => b.push(0),
                }
                V::Bin(b)
            }
            V::Arr(a) => {
                let mut a = a.clone();
                match which {
                    0 => match a.last_mut() {
                        Some(V::U(x)) => *x = (*x ^ 1) & 0xff,
                        Some(e) => *e = e.mutated(0),
                        None => a.push(V::U(0)),
                    },
                    1 => {
                        a.pop();
                    }
                    _ => {
                        let e = a.last().cloned().unwrap_or(V::U(0));
                        a.push(e);
                    }
                }
                V::Arr(a)
            }
            V::Map(m) => {
                let mut m = m.clone();
                m.pop();
                V::Map(m)
            }
        }
    }
}

/// The address (sha3 name) the STORED bytes' own owner / content determines, read from the generic tree of the
/// stored record value (no use of the crates' address helpers). `hdr`: the record kind tag byte.
pub fn derived_names(value: &[u8], sha3: &dyn Fn(&[u8]) -> [u8; 32]) -> Option<Vec<[u8; 32]>> {
    if value.len() < 3 {
        return None;
    }
    let tag = value[1];
    let tree = decode(&value[2..])?;
    match tag {
        // Chunk: the value is the content
        1 => Some(vec![sha3(&tree.as_bytes()?)]),
        // Transaction: a vector of [owner, parents, content, outputs, signature]
        2 => match &tree {
            V::Arr(txs) if tree.as_bytes().is_none() => txs.iter().map(|t| t.get(&[0]).and_then(|o| o.as_bytes()).map(|o| sha3(&o))).collect(),
            _ => None,
        },
        // Register: [[ [meta, owner], permissions ], signature, ops]
        3 => {
            let meta = tree.get(&[0, 0, 0])?.as_bytes()?;
            let owner = tree.get(&[0, 0, 1])?.as_bytes()?;
            let mut b = meta;
            b.extend_from_slice(&owner);
            Some(vec![sha3(&b)])
        }
        // Scratchpad: [[owner, ..], data_encoding, encrypted_data, counter, signature]
        5 => Some(vec![sha3(&tree.get(&[0, 0])?.as_bytes()?)]),
        _ => None,
    }
}
