//! Histories for `validate-store`: validations of a main key (never overlapping), traffic on other keys (cache
//! eviction), completion of disk writes and handling of their notifications in seeded orders.
use crate::real::Pending;
use common::Rng;
use std::collections::VecDeque;

fn subset(rng: &mut Rng, lo: u64, hi: u64) -> Vec<u64> {
    (lo..=hi).filter(|_| rng.chance(1, 2)).collect()
}

/// a payment descriptor: fully valid, or with one condition broken (bad quote signature, this node not a payee,
/// a payee outside the close group, an expired quote, an invalid chain entry, this node's quote for another address)
fn pay(rng: &mut Rng) -> String {
    let mut qs: Vec<(u64, u64, u8, char, u8, u8, u64)> = vec![(0, 0, 1, 'f', 1, 1, 5), (1, 1, 1, 'f', 1, 1, 2), (2, 2, 1, 'f', 1, 1, 3)];
    let mut close = "0.1.2".to_string();
    if rng.chance(1, 4) {
        match rng.below(6) {
            0 => qs[rng.below(3) as usize].2 = 0,
            1 => {
                qs[0].0 = 3;
                qs[0].1 = 3;
                close = "1.2.3".into();
            }
            2 => close = "0.1".into(),
            3 => qs[rng.below(3) as usize].3 = 'e',
            4 => qs[rng.below(3) as usize].5 = 0,
            _ => qs[0].4 = 0,
        }
    }
    let q: Vec<String> = qs.iter().map(|q| format!("{}.{}.{}.{}.{}.{}.{}", q.0, q.1, q.2, q.3, q.4, q.5, q.6)).collect();
    format!("{};{close}", q.join(","))
}

/// one delivery for the mutable record of family `fam` owned by `id` (as validate/gen.rs does for validate-hist):
/// replicated copy, unpaid update or paid upload; counters 0-9; occasionally an invalid signature / entry or a
/// mismatched record key
fn mutable_delivery_at(fam: &str, id: u64, rng: &mut Rng) -> String {
    let space = if fam == "reg" { 2 } else { 1 };
    let dk = 3 * id + space;
    let rk = if rng.chance(1, 12) { 3 * ((id + 1) % 3) + space } else { dk };
    let (content, paid_kind, unpaid_kind) = match fam {
        "pad" => {
            let sig = if rng.chance(4, 5) { *rng.pick(&["v", "v", "v", "d"]) } else { *rng.pick(&["w", "n"]) };
            (format!("S{id}.{}.{sig}", rng.range(0, 9)), "padp", "pad")
        }
        "tx" => (format!("T{id}.{}.{}", rng.range(1, 6), if rng.chance(4, 5) { "v" } else { "i" }), "txp", "tx"),
        _ => {
            let mut ops: Vec<String> = subset(rng, 1, 6).iter().map(|o| format!("{o}v")).collect();
            let base = if rng.chance(1, 10) { "b" } else { "g" };
            if rng.chance(1, 8) {
                ops.push(format!("{}{}", rng.range(7, 8), *rng.pick(&["u", "f"])));
            }
            (format!("R{id}.{base}.{}", if ops.is_empty() { "-".into() } else { ops.join(",") }), "regp", "reg")
        }
    };
    match rng.below(3) {
        0 => {
            let content = if fam == "tx" {
                let mut es = vec![content[1..].to_string()];
                for _ in 0..rng.below(3) {
                    let owner = if rng.chance(1, 4) { (id + 1) % 3 } else { id };
                    es.push(format!("{owner}.{}.{}", rng.range(1, 6), if rng.chance(3, 4) { "v" } else { "i" }));
                }
                format!("T{}", es.join(","))
            } else {
                content
            };
            format!("r {unpaid_kind} {rk} {content} -")
        }
        1 if fam != "tx" => format!("c {unpaid_kind} {rk} {content} -"),
        _ => format!("c {paid_kind} {rk} {content} {}", pay(rng)),
    }
}

pub struct Gen {
    queue: VecDeque<String>,
    remaining: u64,
    rng: Rng,
}

/// K-f3 (scratchpad): cache size 1; 7 accepted and in flight, evicted from the cache by a put of another key; the
/// validation of 5 reads the stale 3 from disk and is accepted; settled store: 5
pub fn kf3_pad() -> Vec<String> {
    ["new 1 1=S3", "deliver r pad 1 S0.7.v -", "deliver r pad 4 S1.1.v -", "get 1", "deliver r pad 1 S0.5.v -", "run 2", "run 4", "ack 2", "ack 4", "run 3", "ack 3", "dump"]
        .iter()
        .map(|s| s.to_string())
        .collect()
}
/// K-f3 (transactions): cache size 1; {1,2} accepted and in flight, evicted; transaction 3 is merged with the stale {1}
pub fn kf3_tx() -> Vec<String> {
    ["new 1 1=T1", "deliver r tx 1 T0.2.v -", "deliver r pad 4 S1.1.v -", "get 1", "deliver r tx 1 T0.3.v -", "run 2", "run 4", "ack 2", "ack 4", "run 3", "ack 3", "dump"]
        .iter()
        .map(|s| s.to_string())
        .collect()
}
/// K-f3 (register, DEFAULT cache size): the first copy is accepted and cached but not yet acknowledged, so
/// `RecordStoreHasKey` says "not held" and the next copy replaces it instead of being merged
pub fn kf3_reg() -> Vec<String> {
    ["new 25 -", "deliver r reg 2 R0.g.1v -", "has 2", "get 2", "deliver r reg 2 R0.g.2v -", "run 1", "run 2", "ack 1", "ack 2", "dump"]
        .iter()
        .map(|s| s.to_string())
        .collect()
}
/// K-f4: `data_encoding` is not covered by the owner's signature
pub fn kf4_enc() -> Vec<String> {
    ["new 25 1=S3", "deliver r pad 1 S0.5.e -", "run 2", "ack 2", "deliver c pad 1 S0.6.e -", "run 3", "ack 3", "dump"].iter().map(|s| s.to_string()).collect()
}
/// K-f5 over the real store (DEFAULT cache, validations never overlap): addresses carry no kind tag, so the chunk `Ck1`
/// whose bytes are owner 0's public key has the owner's scratchpad / transaction key.  An accepted scratchpad that is
/// cached but not yet acknowledged is not in the index `RecordStoreHasKey` reads: the chunk REPLACES it, and the
/// owner's later versions are refused (the local read returns the chunk).  Then the acknowledged case: the chunk is
/// "already there" and the pad stays.
pub fn kf5_squat() -> Vec<String> {
    ["new 25 -", "deliver r pad 1 S0.3.v -", "has 1", "get 1", "deliver r chunk 1 Ck1 -", "run 1", "run 2", "ack 1", "ack 2", "get 1", "deliver r pad 1 S0.5.v -", "dump",
     "new 25 1=S3", "deliver r chunk 1 Ck1 -", "deliver r pad 1 S0.5.v -", "@settle", "dump",
     "new 25 -", "deliver r chunk 1 Ck1 -", "@settle", "deliver r pad 1 S0.5.v -", "deliver r tx 1 T0.1.v -", "dump"]
        .iter()
        .map(|s| s.to_string())
        .collect()
}
/// the scratchpad regress with the DEFAULT cache size: 25 puts of other keys between the two updates
pub fn default_cache_regress() -> Vec<String> {
    let mut v = vec!["new 25 1=S3".to_string(), "deliver r pad 1 S0.7.v -".to_string()];
    for j in 0..20 {
        v.push(format!("deliver r chunk {} C{j} -", 3 * j));
    }
    for j in 1..=5 {
        v.push(format!("deliver r reg {} R{j}.g.1v -", 3 * j + 2));
    }
    v.push("get 1".into());
    v.push("deliver r pad 1 S0.5.v -".into());
    v.push("@settle".into());
    v.push("dump".into());
    v
}

fn benign() -> Vec<String> {
    let mut v: Vec<String> = vec![];
    // every write acknowledged before the next validation of the key: behaves like a plain map, whatever the cache size
    for cache in [1, 2, 25] {
        v.push(format!("new {cache} 1=S3"));
        for d in ["r pad 1 S0.7.v -", "r pad 4 S1.1.v -", "r pad 1 S0.5.v -", "c pad 1 S0.8.v -", "r pad 1 S0.8.d -", "r pad 1 S0.9.w -"] {
            v.push(format!("deliver {d}"));
            v.push("@settle".into());
            v.push("dump".into());
        }
        v.push(format!("new {cache} -"));
        for d in ["r reg 2 R0.g.1v -", "r reg 2 R0.g.2v -", "c reg 2 R0.g.3v,4v -", "r tx 1 T0.1.v -", "r tx 1 T0.2.v,1.3.v -", "r reg 2 R0.g.1v -"] {
            v.push(format!("deliver {d}"));
            v.push("@settle".into());
            v.push("dump".into());
        }
    }
    // cached but not acknowledged: a scratchpad / transaction validation still reads the last accepted copy
    for l in ["new 25 -", "deliver r pad 1 S0.5.v -", "deliver r pad 1 S0.3.v -", "deliver r pad 1 S0.6.v -", "deliver c pad 1 S0.9.v -", "deliver r tx 4 T1.1.v -", "deliver r tx 4 T1.2.v -", "dump", "@settle", "dump"] {
        v.push(l.to_string());
    }
    v
}

impl Gen {
    pub fn new(n: u64, rng: Rng) -> Self {
        let mut queue = VecDeque::new();
        for l in kf3_pad().into_iter().chain(kf3_tx()).chain(kf3_reg()).chain(kf4_enc()).chain(kf5_squat()).chain(default_cache_regress()).chain(benign()) {
            queue.push_back(l);
        }
        Gen { queue, remaining: n, rng }
    }

    fn other_delivery(&mut self, id: u64) -> String {
        let rng = &mut self.rng;
        let o = (id + 1 + rng.below(2)) % 3;
        match rng.below(4) {
            0 => format!("r pad {} S{o}.{}.v -", 3 * o + 1, rng.range(0, 9)),
            1 => format!("r reg {} R{o}.g.{}v -", 3 * o + 2, rng.range(1, 6)),
            2 => format!("r tx {} T{o}.{}.v -", 3 * o + 1, rng.range(1, 6)),
            _ => {
                let c = rng.below(12);
                format!("r chunk {} C{c} -", 3 * c)
            }
        }
    }

    fn new_history(&mut self) {
        let fam = *self.rng.pick(&["pad", "pad", "tx", "reg"]);
        let id = self.rng.below(3);
        let cache = *self.rng.pick(&[1u64, 1, 2, 3, 25]);
        let space = if fam == "reg" { 2 } else { 1 };
        let dk = 3 * id + space;
        let cross = fam != "reg" && self.rng.chance(1, 4);
        let store = if self.rng.chance(2, 3) {
            let d = match fam {
                "pad" => format!("S{}", self.rng.range(0, 5)),
                "tx" => format!("T{}", self.rng.range(1, 3)),
                _ => format!("R{}", self.rng.range(1, 3)),
            };
            format!("{dk}={d}")
        } else {
            "-".to_string()
        };
        self.queue.push_back(format!("new {cache} {store}"));
        // disciplined histories acknowledge every write before the next validation (the `_partial` hypothesis)
        let disciplined = self.rng.chance(1, 4);
        let steps = self.rng.range(4, 14);
        for _ in 0..steps {
            let r = self.rng.below(100);
            if r < 45 {
                let f = if cross { *self.rng.pick(&["pad", "tx"]) } else { fam };
                let mut d = mutable_delivery_at(f, id, &mut self.rng);
                if f == "pad" && self.rng.chance(1, 8) {
                    d = format!("r pad {dk} S{id}.{}.e -", self.rng.range(0, 9));
                }
                self.queue.push_back(format!("deliver {d}"));
                if disciplined {
                    self.queue.push_back("@settle".into());
                }
            } else if r < 65 {
                let d = self.other_delivery(id);
                self.queue.push_back(format!("deliver {d}"));
            } else if r < 82 {
                self.queue.push_back("@run".into());
            } else if r < 95 {
                self.queue.push_back("@ack".into());
            } else {
                self.queue.push_back(format!("{} {dk}", if self.rng.chance(1, 2) { "get" } else { "has" }));
            }
        }
        if self.rng.chance(1, 3) {
            self.queue.push_back("dump".into());
        }
        self.queue.push_back("@settle".into());
        self.queue.push_back("dump".into());
    }

    pub fn next(&mut self, p: &Pending) -> Option<String> {
        loop {
            match self.queue.pop_front() {
                Some(l) if l == "@run" => {
                    if !p.runnable.is_empty() {
                        return Some(format!("run {}", self.rng.pick(&p.runnable)));
                    }
                }
                Some(l) if l == "@ack" => {
                    if !p.ackable.is_empty() {
                        return Some(format!("ack {}", self.rng.pick(&p.ackable)));
                    }
                }
                Some(l) if l == "@settle" => {
                    let mut opts: Vec<String> = p.runnable.iter().map(|i| format!("run {i}")).collect();
                    opts.extend(p.ackable.iter().map(|i| format!("ack {i}")));
                    if !opts.is_empty() {
                        self.queue.push_front("@settle".into());
                        return Some(self.rng.pick(&opts).clone());
                    }
                }
                Some(l) => return Some(l),
                None => {
                    if self.remaining > 0 {
                        self.remaining -= 1;
                        self.new_history();
                    } else {
                        return None;
                    }
                }
            }
        }
    }
}
