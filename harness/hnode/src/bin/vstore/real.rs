//! A real node `SwarmDriver` (never run) whose record store answers the validation's store commands through the
//! real `handle_local_cmd`; disk writes and their notifications are scheduled explicitly.
use crate::stub::Stub;
use crate::world::*;
use ant_evm::{EvmNetwork, RewardsAddress};
use ant_networking::verif::record_store as rs;
use ant_networking::verif::{driver as dhook, event as hook};
use ant_networking::verif::{LocalSwarmCmd, NetworkSwarmCmd};
use ant_networking::{Network, NetworkBuilder, NetworkError, NetworkEvent, SwarmDriver};
use ant_node::verif::node::{VerifNode, VerifNodeError};
use ant_node::{NodeEvent, NodeEventsReceiver};
use ant_protocol::messages::{Cmd, Request};
use ant_protocol::storage::RecordType;
use libp2p::kad::{Record, RecordKey};
use std::collections::{BTreeMap, BTreeSet};
use std::future::Future;
use std::path::PathBuf;
use std::pin::Pin;
use std::task::Poll;
use tokio::runtime::Runtime;
use tokio::sync::{mpsc, oneshot};

#[derive(Clone, Debug)]
pub struct Delivery {
    pub client: bool,
    pub kind: String,
    pub rk: u64,
    pub content: DContent,
    pub pay: Option<PayD>,
}

pub fn parse_delivery(ws: &[&str]) -> Option<Delivery> {
    if ws.len() != 5 {
        return None;
    }
    let client = match ws[0] {
        "c" => true,
        "r" => false,
        _ => return None,
    };
    kind_of(ws[1])?;
    Some(Delivery { client, kind: ws[1].to_string(), rk: ws[2].parse().ok()?, content: parse_content(ws[3])?, pay: parse_pay(ws[4])? })
}

/// result classes, as in validate/exec.rs
pub fn classify(e: &VerifNodeError) -> String {
    use VerifNodeError as E;
    match e {
        E::RecordKeyMismatch => "keyMismatch".into(),
        E::InvalidPutWithoutPayment(_) => "unpaid".into(),
        E::UnexpectedRecordWithPayment(_) => "unexpectedPayment".into(),
        E::IgnoringOutdatedScratchpadPut => "outdated".into(),
        E::InvalidScratchpadSignature => "invalidSig".into(),
        E::InvalidQuoteContent => "payWrongContent".into(),
        E::EvmNetwork(_) => "payChain".into(),
        E::InvalidRequest(m) => {
            if m.starts_with("Payment is not valid") {
                "payNotForUs"
            } else if m.starts_with("Payment quote has expired") {
                "payExpired"
            } else if m.contains("out-of-range payees") {
                "payOutOfRange"
            } else if m.starts_with("No transactions to verify") {
                "noTx"
            } else if m.contains("claimed to be existing locally was not found") {
                "regNotFound"
            } else {
                "invalidRequest"
            }
            .into()
        }
        E::Protocol(ant_protocol::Error::RecordParsingFailed) => "parse".into(),
        E::Protocol(ant_protocol::Error::RecordHeaderParsingFailed) => "header".into(),
        E::Protocol(_) => "protocol".into(),
        E::Register(ant_registers::Error::DifferentBaseRegister) => "regDifferentBase".into(),
        E::Register(_) => "regInvalid".into(),
        E::Network(NetworkError::RecordKindMismatch(_)) => "kindMismatch".into(),
        E::Network(_) => "network".into(),
        _ => "other".into(),
    }
}

static SCRATCH: std::sync::OnceLock<PathBuf> = std::sync::OnceLock::new();
pub fn set_scratch(p: PathBuf) {
    let _ = SCRATCH.set(p);
}
fn scratch_dir() -> tempfile::TempDir {
    // never under /tmp: a store opened on temp_dir() by another process deletes hex-named files it cannot decrypt
    let base = SCRATCH.get().cloned().unwrap_or_else(|| PathBuf::from("/verif/work/vstore-scratch"));
    std::fs::create_dir_all(&base).expect("scratch base");
    tempfile::Builder::new().prefix("vstore-").tempdir_in(base).expect("tempdir")
}

fn new_lane_rt() -> Runtime {
    tokio::runtime::Builder::new_current_thread().event_interval(1).build().expect("runtime")
}

/// `new` store descriptor, order preserved
pub fn parse_store_ordered(s: &str) -> Option<Vec<(u64, String)>> {
    if s == "-" {
        return Some(vec![]);
    }
    s.split(',')
        .map(|e| {
            let (k, d) = e.split_once('=')?;
            Some((k.parse().ok()?, d.to_string()))
        })
        .collect()
}

pub struct PutInfo {
    pub key: u64,
    pub desc: String,
    /// content of the last put the node issued for this key before this one (or the initial content)
    pub latest_before: Option<String>,
    /// when the validation started: no write / notification of the key pending
    pub acked_before: bool,
    /// when the validation started: the key was in the store's FIFO cache
    pub cached_before: bool,
    /// every entry id that was ever part of an accepted content of this key
    pub ever_held: BTreeSet<String>,
}

pub struct Validation {
    pub res: String,
    pub toks: Vec<String>,
    pub puts: Vec<PutInfo>,
    /// for the key the record was presented under
    pub acked_at_start: bool,
    pub latest_at_start: Option<String>,
    pub latest_after: Option<String>,
}

#[derive(Default, Clone)]
pub struct Pending {
    pub runnable: Vec<u64>,
    pub ackable: Vec<u64>,
}

pub struct SWorld {
    root: tempfile::TempDir,
    base_rt: Option<Runtime>,
    driver: Option<Box<SwarmDriver>>,
    network: Option<Network>,
    events: Option<mpsc::Receiver<NetworkEvent>>,
    stub: Stub,
    salt: u64,
    /// pending write tasks: (id, key number, the runtime its task sits in)
    lanes: Vec<(u64, u64, Runtime)>,
    /// notifications received and not handled yet: (id of the write, key number, command)
    notes: Vec<(u64, u64, LocalSwarmCmd)>,
    next_id: u64,
    /// per key: contents of the puts the node issued (initial content first), in order
    accepted: BTreeMap<u64, Vec<String>>,
}

impl Drop for SWorld {
    fn drop(&mut self) {
        self.lanes.clear();
        self.notes.clear();
        if let Some(base) = self.base_rt.take() {
            {
                let _g = base.enter();
                self.driver = None;
                self.network = None;
                self.events = None;
            }
            base.shutdown_background();
        }
    }
}

fn type_char(t: &RecordType, incoming: &[u8; 32], stored: Option<&Record>) -> String {
    match t {
        RecordType::Chunk => "c".into(),
        RecordType::Scratchpad => "s".into(),
        RecordType::NonChunk(x) => {
            let i = x.0 == *incoming;
            let m = stored.map(|r| sha3(&r.value) == x.0).unwrap_or(false);
            match (i, m) {
                (true, true) => "im",
                (true, false) => "i",
                (false, true) => "m",
                _ => "o",
            }
            .into()
        }
    }
}

struct Run {
    d: Delivery,
    events: NodeEventsReceiver,
    incoming_hash: [u8; 32],
    first_hash: Option<[u8; 32]>,
    stub_seen: usize,
    toks: Vec<String>,
    puts: Vec<PutInfo>,
    pending_keys: BTreeSet<u64>,
    cached_keys: BTreeSet<u64>,
}

impl SWorld {
    pub fn new(stub: Stub, cache: usize) -> SWorld {
        let root = scratch_dir();
        let base = tokio::runtime::Builder::new_current_thread().enable_all().build().expect("runtime");
        let (network, events, driver) = {
            let _g = base.enter();
            let mut b = NetworkBuilder::new(peer_keypair(0), true);
            b.listen_addr("127.0.0.1:0".parse().expect("addr"));
            b.build_node(root.path().to_path_buf()).expect("build_node")
        };
        let mut driver = Box::new(driver);
        {
            let store = rs::node_store_mut(&mut driver).expect("node store");
            let max = rs::MAX_RECORDS_COUNT_VALUE;
            rs::set_capacities(store, max, cache);
        }
        {
            let mut g = stub.state.lock().expect("stub");
            g.answers.clear();
            g.log.clear();
        }
        SWorld {
            root,
            base_rt: Some(base),
            driver: Some(driver),
            network: Some(network),
            events: Some(events),
            stub,
            salt: 0,
            lanes: vec![],
            notes: vec![],
            // id 0 is the metrics flush `build_node` spawned into the driver's own runtime (never run here)
            next_id: 1,
            accepted: BTreeMap::new(),
        }
    }

    fn driver(&mut self) -> &mut SwarmDriver {
        self.driver.as_mut().expect("driver")
    }

    /// hand a command to the real `SwarmDriver::handle_local_cmd` while `rt` is the ambient runtime
    fn handle_in(&mut self, rt: &Runtime, cmd: LocalSwarmCmd) -> Result<(), NetworkError> {
        let _g = rt.enter();
        let r = hook::handle_local_cmd(self.driver.as_mut().expect("driver"), cmd);
        if let Some(ev) = self.events.as_mut() {
            while ev.try_recv().is_ok() {}
        }
        r
    }

    /// `GetLocalRecord` through the real handler
    pub fn get_record(&mut self, key: &RecordKey) -> Option<Record> {
        let (tx, mut rx) = oneshot::channel();
        let lane = new_lane_rt();
        let _ = self.handle_in(&lane, LocalSwarmCmd::GetLocalRecord { key: key.clone(), sender: tx });
        rx.try_recv().ok().flatten()
    }

    /// `RecordStoreHasKey` through the real handler
    pub fn has_key(&mut self, key: &RecordKey) -> bool {
        let (tx, mut rx) = oneshot::channel();
        let lane = new_lane_rt();
        let _ = self.handle_in(&lane, LocalSwarmCmd::RecordStoreHasKey { key: key.clone(), sender: tx });
        rx.try_recv().unwrap_or(false)
    }

    pub fn get_desc(&mut self, k: u64) -> Option<String> {
        let key = record_key(k);
        self.get_record(&key).map(|r| describe(&key, &r))
    }
    pub fn has(&mut self, k: u64) -> bool {
        self.has_key(&record_key(k))
    }

    fn cached_keys(&mut self) -> BTreeSet<u64> {
        let store = rs::node_store_mut(self.driver()).expect("node store");
        rs::cache_entries(store).iter().filter_map(|(k, _, _)| key_number(k)).collect()
    }
    fn pending_keys(&self) -> BTreeSet<u64> {
        self.lanes.iter().map(|l| l.1).chain(self.notes.iter().map(|n| n.1)).collect()
    }
    pub fn nothing_pending(&self) -> bool {
        self.lanes.is_empty() && self.notes.is_empty()
    }
    pub fn latest_all(&self) -> Vec<(u64, String)> {
        self.accepted.iter().filter_map(|(k, v)| v.last().map(|d| (*k, d.clone()))).collect()
    }
    fn latest(&self, k: u64) -> Option<String> {
        self.accepted.get(&k).and_then(|v| v.last().cloned())
    }

    /// `PutLocalRecord` through the real handler; the write task it spawns stays pending in its own runtime
    fn put_local(&mut self, record: Record) -> String {
        let k = key_number(&record.key).unwrap_or(9999);
        let lane = new_lane_rt();
        let res = self.handle_in(&lane, LocalSwarmCmd::PutLocalRecord { record });
        let spawned = lane.metrics().num_alive_tasks();
        match res {
            Ok(()) if spawned == 0 => "dedup".into(),
            Ok(()) => {
                let id = self.next_id;
                self.next_id += 1;
                self.lanes.push((id, k, lane));
                format!("t{id}")
            }
            Err(NetworkError::KademliaStoreError(libp2p::kad::store::Error::MaxRecords)) => "max".into(),
            Err(NetworkError::InCorrectRecordHeader) => "refused".into(),
            Err(_) => "err".into(),
        }
    }

    /// initial content: put, written, acknowledged
    pub fn seed(&mut self, k: u64, desc: &str) -> bool {
        let Some(rec) = build_stored(k, desc) else { return false };
        let canon = describe(&rec.key, &rec);
        let out = self.put_local(rec);
        if let Some(id) = out.strip_prefix('t').and_then(|s| s.parse::<u64>().ok()) {
            self.run_task(id);
            self.ack(id);
        }
        self.accepted.entry(k).or_default().push(canon);
        true
    }

    pub fn pending(&self) -> Pending {
        let mut p = Pending::default();
        for (i, l) in self.lanes.iter().enumerate() {
            if !self.lanes[..i].iter().any(|o| o.1 == l.1) {
                p.runnable.push(l.0);
            }
        }
        for (i, n) in self.notes.iter().enumerate() {
            if !self.notes[..i].iter().any(|o| o.1 == n.1) {
                p.ackable.push(n.0);
            }
        }
        p
    }

    pub fn run_task(&mut self, id: u64) -> String {
        let Some(pos) = self.lanes.iter().position(|l| l.0 == id) else { return "no-task".into() };
        let k = self.lanes[pos].1;
        if self.lanes[..pos].iter().any(|l| l.1 == k) {
            return "illegal-choice".into();
        }
        let (_, _, lane) = self.lanes.remove(pos);
        let r = std::panic::catch_unwind(std::panic::AssertUnwindSafe(|| {
            lane.block_on(tokio::task::yield_now());
            // the finished write spawns the task that pushes the notification on the command channel: same lane
            let mut guard = 0;
            while lane.metrics().num_alive_tasks() > 0 && guard < 8 {
                lane.block_on(tokio::task::yield_now());
                guard += 1;
            }
        }));
        if r.is_err() {
            return "panic".into();
        }
        let mut out = "ran".to_string();
        while let Some(c) = dhook::try_recv_local_cmd(self.driver()) {
            match &c {
                LocalSwarmCmd::AddLocalRecordAsStored { key, .. } => {
                    out.push_str(" add");
                    let kk = key_number(key).unwrap_or(9999);
                    self.notes.push((id, kk, c));
                }
                LocalSwarmCmd::RemoveFailedLocalRecord { key } => {
                    out.push_str(" fail");
                    let kk = key_number(key).unwrap_or(9999);
                    self.notes.push((id, kk, c));
                }
                _ => out.push_str(" ?cmd"),
            }
        }
        out
    }

    pub fn ack(&mut self, id: u64) -> String {
        let Some(pos) = self.notes.iter().position(|n| n.0 == id) else { return "no-note".into() };
        let k = self.notes[pos].1;
        if self.notes[..pos].iter().any(|n| n.1 == k) {
            return "illegal-choice".into();
        }
        let (_, _, cmd) = self.notes.remove(pos);
        let lane = new_lane_rt();
        match self.handle_in(&lane, cmd) {
            Ok(()) => "ok".into(),
            Err(_) => "err".into(),
        }
    }

    /// (text, per key: (key, content read, listed))
    pub fn dump(&mut self) -> (String, Vec<(u64, String, bool)>) {
        let mut listing = vec![];
        let mut es = vec![];
        for k in 0..60u64 {
            let d = self.get_desc(k);
            let h = self.has(k);
            if d.is_some() || h {
                let d = d.unwrap_or_else(|| "none".into());
                es.push(format!("{k}={d}:{}", h as u8));
                listing.push((k, d, h));
            }
        }
        let j = |v: Vec<String>| if v.is_empty() { "-".to_string() } else { v.join(",") };
        let ts: Vec<String> = self.lanes.iter().map(|l| format!("{}:{}", l.0, l.1)).collect();
        let ns: Vec<String> = self.notes.iter().map(|n| format!("{}:{}", n.0, n.1)).collect();
        (format!("store {} tasks {} notes {}", j(es), j(ts), j(ns)), listing)
    }

    fn sync_v(&self, run: &mut Run) {
        let g = self.stub.state.lock().expect("stub");
        while run.stub_seen < g.log.len() {
            let mine = run.first_hash.map(|h| g.log[run.stub_seen].first() == Some(&h)).unwrap_or(false);
            if mine {
                run.toks.push("V".into());
            }
            run.stub_seen += 1;
        }
    }

    fn on_local(&mut self, run: &mut Run, cmd: LocalSwarmCmd, after_main: bool) {
        self.sync_v(run);
        match cmd {
            LocalSwarmCmd::RecordStoreHasKey { key, sender } => {
                run.toks.push(format!("H{}", key_str(&key)));
                let lane = new_lane_rt();
                let _ = self.handle_in(&lane, LocalSwarmCmd::RecordStoreHasKey { key, sender });
            }
            LocalSwarmCmd::GetLocalRecord { key, sender } => {
                let got = self.get_record(&key);
                if after_main {
                    // a `replicate_valid_fresh_record` task checking that the record is readable
                    if got.is_none() {
                        run.toks.push(format!("N{}", key_str(&key)));
                    }
                } else {
                    run.toks.push(format!("G{}", key_str(&key)));
                }
                let _ = sender.send(got);
            }
            LocalSwarmCmd::GetClosestKLocalPeers { sender } => {
                run.toks.push("K".into());
                let close: Vec<libp2p::PeerId> =
                    run.d.pay.as_ref().map(|p| p.close.iter().map(|i| peer_id(*i)).collect()).unwrap_or_default();
                let _ = sender.send(close);
            }
            LocalSwarmCmd::PaymentReceived => {
                let mut amount = "?".to_string();
                while let Ok(ev) = run.events.try_recv() {
                    if let NodeEvent::RewardReceived(a, _) = ev {
                        amount = a.as_atto().to_string();
                    }
                }
                run.toks.push(format!("P{amount}"));
            }
            LocalSwarmCmd::PutLocalRecord { record } => {
                let desc = describe(&record.key, &record);
                let k = key_number(&record.key).unwrap_or(9999);
                let latest_before = self.latest(k);
                let ever_held: BTreeSet<String> = self
                    .accepted
                    .get(&k)
                    .map(|v| v.iter().filter(|d| d.starts_with(['T', 'R', 'A'])).flat_map(|d| d[1..].split('.').map(|s| s.to_string()).collect::<Vec<_>>()).collect())
                    .unwrap_or_default();
                let out = self.put_local(record);
                run.toks.push(format!("W{}={desc}:{out}", key_str(&record_key(k))));
                if out.starts_with('t') || out == "dedup" {
                    self.accepted.entry(k).or_default().push(desc.clone());
                }
                run.puts.push(PutInfo {
                    key: k,
                    desc,
                    latest_before,
                    acked_before: !run.pending_keys.contains(&k),
                    cached_before: run.cached_keys.contains(&k),
                    ever_held,
                });
            }
            LocalSwarmCmd::FetchCompleted((key, ty)) => {
                let stored = self.get_record(&key);
                let t = type_char(&ty, &run.incoming_hash, stored.as_ref());
                run.toks.push(format!("F{}:{t}", key_str(&key)));
            }
            LocalSwarmCmd::GetReplicateCandidates { sender, .. } => {
                let _ = sender.send(vec![peer_id(9)]);
            }
            c @ (LocalSwarmCmd::AddLocalRecordAsStored { .. } | LocalSwarmCmd::RemoveFailedLocalRecord { .. }) => {
                // cannot happen: write tasks run only in `run_task`, which takes their notification at once
                self.notes.push((u64::MAX, 9999, c));
                run.toks.push("?note".into());
            }
            _ => run.toks.push("?local".into()),
        }
    }

    fn on_net(&mut self, run: &mut Run, cmd: NetworkSwarmCmd) {
        match cmd {
            NetworkSwarmCmd::SendRequest { req: Request::Cmd(Cmd::Replicate { keys, .. }), .. } => {
                for (addr, ty) in keys {
                    let key = addr.to_record_key();
                    let stored = self.get_record(&key);
                    let t = type_char(&ty, &run.incoming_hash, stored.as_ref());
                    run.toks.push(format!("R{}:{t}", key_str(&key)));
                }
            }
            _ => run.toks.push("?net".into()),
        }
    }

    /// one validation on the real `Node`, processed to completion; its swarm commands are taken off the driver's own
    /// channels (what `SwarmDriver::run` would do) and the store commands handled by the real handlers
    pub fn validate(&mut self, d: Delivery) -> Validation {
        self.salt += 1;
        let network = self.network.as_ref().expect("network").clone();
        let evm = EvmNetwork::new_custom(
            &format!("http://127.0.0.1:{}/", self.stub.port),
            "0x5FbDB2315678afecb367f032d93F642f64180aa3",
            "0x8464135c8F25Da09e49BC8782676a84730C318bC",
        );
        let node = VerifNode::new(network, evm, RewardsAddress::from([0x11u8; 20]));
        let events = node.subscribe_events();
        let addr_key = derived_key(&d.content).unwrap_or(d.rk);
        let built = d.pay.as_ref().map(|p| build_pay(p, key_xorname(addr_key), self.salt));
        if let Some(b) = &built {
            let mut g = self.stub.state.lock().expect("stub");
            for (h, v, a) in &b.chain {
                g.answers.insert(*h, (*v, *a));
            }
        }
        let first_hash = built.as_ref().and_then(|b| b.chain.first().map(|c| c.0));
        let record = build_record(&d.kind, d.rk, &d.content, built.as_ref(), d.client);
        let incoming_hash = sha3(&record.value);
        let client = d.client;
        let stub_seen = self.stub.state.lock().expect("stub").log.len();
        let rk = d.rk;
        let pending_keys = self.pending_keys();
        let cached_keys = self.cached_keys();
        let acked_at_start = !pending_keys.contains(&rk);
        let latest_at_start = self.latest(rk);
        let mut run = Run { d, events, incoming_hash, first_hash, stub_seen, toks: vec![], puts: vec![], pending_keys, cached_keys };
        let rt = tokio::runtime::Builder::new_current_thread().enable_all().build().expect("runtime");
        let mut fut: Pin<Box<dyn Future<Output = Result<(), VerifNodeError>>>> = Box::pin(async move {
            if client {
                node.validate_and_store_record(record).await
            } else {
                node.store_replicated_in_record(record).await
            }
        });
        let mut done: Option<String> = None;
        let start = std::time::Instant::now();
        let mut idle = 0;
        loop {
            if done.is_none() {
                let polled = std::panic::catch_unwind(std::panic::AssertUnwindSafe(|| rt.block_on(async { futures::poll!(&mut fut) })));
                match polled {
                    Err(_) => {
                        done = Some("panic".into());
                        break;
                    }
                    Ok(Poll::Ready(r)) => {
                        self.sync_v(&mut run);
                        done = Some(match r {
                            Ok(()) => "ok".into(),
                            Err(e) => classify(&e),
                        });
                    }
                    Ok(Poll::Pending) => {}
                }
            } else {
                // tasks the validation spawned (replication of a fresh record)
                rt.block_on(tokio::task::yield_now());
            }
            let mut got = false;
            while let Some(cmd) = dhook::try_recv_local_cmd(self.driver()) {
                got = true;
                let after = done.is_some();
                self.on_local(&mut run, cmd, after);
            }
            while let Some(cmd) = dhook::try_recv_network_cmd(self.driver()) {
                got = true;
                self.on_net(&mut run, cmd);
            }
            if done.is_some() {
                if got {
                    idle = 0;
                } else {
                    idle += 1;
                    if idle >= 8 {
                        break;
                    }
                }
            } else if !got {
                rt.block_on(async { tokio::time::sleep(std::time::Duration::from_millis(1)).await });
                if start.elapsed() > std::time::Duration::from_secs(20) {
                    done = Some("timeout".into());
                    break;
                }
            }
        }
        drop(fut);
        rt.shutdown_background();
        let latest_after = self.latest(rk);
        Validation { res: done.unwrap_or_else(|| "pend".into()), toks: run.toks, puts: run.puts, acked_at_start, latest_at_start, latest_after }
    }
}
