//! C07 component `validate-store`: the real `Node` put validation (`ant-node/src/put_validation.rs`) answered by a
//! REAL node record store — a `SwarmDriver` built by `NetworkBuilder::build_node` and never run: the harness plays
//! its run loop one command at a time, handing `RecordStoreHasKey`, `GetLocalRecord`, `PutLocalRecord` and
//! `AddLocalRecordAsStored` to the real `handle_local_cmd`.  The disk write a `PutLocalRecord` spawns sits in a
//! per-put current-thread runtime ("lane", as in hnet/store.rs) and completes only on `run <id>`; the
//! `AddLocalRecordAsStored` it then sends is handled only on `ack <id>`.
//!
//! Line protocol (contents / payments as in validate.rs, plus the scratchpad class `e`: signed by the owner,
//! `data_encoding` changed afterwards):
//!   new <cache> <store>                          fresh node store with that records_cache_size; each `k=desc` entry is put,
//!                                                written and acknowledged, in the listed order                  -> ok
//!   deliver <path> <kind> <rk> <content> <pay>   one validation processed to completion                        -> <result> | <trace>
//!   run <id>                                     write task <id> completes                                      -> ran add | ran fail | illegal-choice | no-task
//!   ack <id>                                     the notification of write <id> is handled                      -> ok | illegal-choice | no-note
//!   get <k> | has <k>                            GetLocalRecord / RecordStoreHasKey through the real handlers
//!   dump                                         store <k>=<desc>:<listed> … tasks <id>:<k> … notes <id>:<k> …
//! A put in a trace reads W<key>=<content>:t<id> (write task spawned) | :dedup | :max | :refused.
#![allow(dead_code)]
#[path = "validate/stub.rs"]
mod stub;
#[path = "validate/world.rs"]
mod world;
#[path = "vstore/real.rs"]
mod real;
#[path = "vstore/hist.rs"]
mod hist;

use common::{Out, Rng};
use real::*;
use world::*;

pub struct Ctx {
    pub world: Option<SWorld>,
    pub stub: stub::Stub,
    pub history: Vec<String>,
    pub cache: usize,
}

fn fmt_out(res: &str, toks: &[String]) -> String {
    if toks.is_empty() {
        format!("{res} |")
    } else {
        format!("{res} | {}", toks.join(" "))
    }
}

fn pad_counter(desc: &str) -> Option<(u64, bool)> {
    let r = desc.strip_prefix('S')?;
    let r = r.strip_suffix('e').unwrap_or(r);
    let (n, valid) = match r.strip_suffix('i') {
        Some(n) => (n, false),
        None => (r, true),
    };
    Some((n.parse().ok()?, valid))
}
fn id_set(desc: &str) -> Vec<String> {
    let r = desc[1..].trim_start_matches('!');
    if r.is_empty() {
        vec![]
    } else {
        r.split('.').map(|s| s.to_string()).collect()
    }
}
fn fam(desc: &str) -> u8 {
    match desc.chars().next() {
        Some('C') => 0,
        Some('S') => 1,
        Some('T') => 2,
        Some('R') | Some('A') => 3,
        _ => 9,
    }
}

/// Model-independent oracle for one completed validation.  `latest` (per key: the content of the last put the node
/// issued, or the initial content) is what a store that served every read with the last accepted write would
/// hold; `hyp` says whether the `_partial` hypothesis held when the validation started: every accepted write of
/// the key acknowledged — or, for the kinds whose decision reads only the record (scratchpad, transactions),
/// still cached.
fn oracle(ctx: &Ctx, d: &Delivery, v: &Validation, out: &mut Out) {
    let hist = ctx.history.join(" ; ");
    if v.res == "panic" || v.res == "timeout" {
        out.oracle_fail("no-panic", &hist, &format!("validation ended with {}", v.res));
        return;
    }
    if v.res != "ok" && !v.puts.is_empty() {
        out.oracle_fail("C03:rejected-stores-nothing", &hist, &format!("result {} but the node put {} record(s)", v.res, v.puts.len()));
    }
    for p in &v.puts {
        let desc = &p.desc;
        let key = p.key;
        if desc.contains('!') || desc.contains('?') || (desc.starts_with('S') && desc.ends_with('i')) {
            out.oracle_fail("C07:invalid-never-stored", &hist, &format!("content that is not validly signed by its owner stored at {key}: {desc}"));
        }
        if desc.starts_with('S') && desc.ends_with('e') {
            // a stored field the owner's signature does not cover differs from the signed scratchpad
            if matches!(d.content, DContent::Pad { sig: PadSig::ValidEnc, .. }) {
                out.count("known:K-f4-data-encoding-unsigned");
            } else {
                out.oracle_fail("C07:every-stored-field-owner-signed", &hist, &format!("scratchpad stored at {key} with a data_encoding its owner never signed, although the delivered one carried the owner's: {desc}"));
            }
        }
        // chunks and registers decide on `RecordStoreHasKey` (the index): they need every accepted write acknowledged
        let hyp = if matches!(fam(desc), 0 | 3) { p.acked_before } else { p.acked_before || p.cached_before };
        if fam(desc) == 0 && key % 3 != 0 {
            // known finding K-f5: a Chunk whose bytes are an owner's public key / a register's meta ‖ pk is stored under
            // that owner-derived key (no kind tag in an address)
            out.count("known:K-f5-cross-kind-key-squat:stored");
        }
        let stale = |clause: &str, what: String, out: &mut Out| {
            if hyp {
                out.oracle_fail(clause, &hist, &what);
            } else {
                // K-f3: the validation read a stale / absent copy while an accepted write of the key was in flight
                out.count(&format!("known:K-f3:{clause}"));
            }
        };
        if !hyp {
            out.count("put-in-stale-window");
        }
        if let Some(prev) = &p.latest_before {
            if fam(prev) != fam(desc) {
                stale("C07:cross-kind-never-overwrites", format!("{prev} (last accepted at key {key}) was replaced by {desc}"), out);
            }
            if let (Some((n, _)), Some((pn, _))) = (pad_counter(desc), pad_counter(prev)) {
                if n <= pn {
                    stale("C07:counter-strictly-increases", format!("scratchpad counter went {pn} -> {n} at key {key} (validations of the key never overlapped)"), out);
                }
            }
        }
        if matches!(fam(desc), 2 | 3) {
            let new_ids = id_set(desc);
            let prev_ids = p.latest_before.as_deref().filter(|pd| fam(pd) == fam(desc)).map(id_set).unwrap_or_default();
            if prev_ids.iter().any(|x| !new_ids.contains(x)) {
                stale("C07:sets-only-grow", format!("set at key {key} shrank: {:?} -> {desc} (validations of the key never overlapped)", p.latest_before), out);
            }
            let delivered: Vec<String> = match &d.content {
                DContent::Txs(v) => v.iter().filter(|t| t.valid && 3 * t.owner + 1 == key).map(|t| t.t.to_string()).collect(),
                DContent::Reg { ops, base, id }
                    if 3 * id + 2 == key
                        && *base != RegBase::Bad
                        && ops.iter().all(|o| o.cls == 'v' || ((o.cls == 'u' || o.cls == 's') && *base == RegBase::Alt)) =>
                {
                    ops.iter().map(|o| o.id.to_string()).collect()
                }
                _ => vec![],
            };
            for n in &new_ids {
                // whatever the node read, an entry it stores was held at some time or validly delivered now
                if !prev_ids.contains(n) && !delivered.contains(n) && !p.ever_held.contains(n) {
                    out.oracle_fail("C07:only-valid-delivered-entries", &hist, &format!("entry {n} at key {key} was neither held nor validly delivered"));
                }
            }
        }
    }
    // an accepted valid replicated update is reflected in what the node holds as the last accepted content
    if v.acked_at_start && !d.client && v.res != "panic" {
        let key = d.rk;
        let now = v.latest_after.clone();
        let before_fam = v.latest_at_start.as_deref().map(fam);
        match &d.content {
            DContent::Pad { n, owner, sig: PadSig::Valid | PadSig::ValidOther | PadSig::ValidEnc } if 3 * owner + 1 == key && d.kind == "pad" && before_fam.map(|f| f == 1).unwrap_or(true) => {
                let ok = now.as_deref().and_then(pad_counter).map(|(c, v)| v && c >= *n).unwrap_or(false);
                if !ok {
                    out.oracle_fail("C07:highest-valid-version-kept", &hist, &format!("valid scratchpad version {n} delivered for key {key} but the last accepted content is {now:?}"));
                }
            }
            DContent::Txs(txs) if d.kind == "tx" && before_fam.map(|f| f == 2).unwrap_or(true) => {
                let held = now.as_deref().filter(|x| fam(x) == 2).map(id_set).unwrap_or_default();
                for t in txs.iter().filter(|t| t.valid && 3 * t.owner + 1 == key) {
                    if !held.contains(&t.t.to_string()) {
                        out.oracle_fail("C07:union-of-valid-delivered", &hist, &format!("valid transaction {} delivered for key {key} but the last accepted content is {now:?}", t.t));
                    }
                }
            }
            DContent::Reg { ops, base, id } if d.kind == "reg" && 3 * id + 2 == key && *base != RegBase::Bad => {
                let all_ok = ops.iter().all(|o| o.cls == 'v' || ((o.cls == 'u' || o.cls == 's') && *base == RegBase::Alt));
                let held_alt = now.as_deref().map(|s| s.starts_with('A'));
                if all_ok && held_alt == Some(*base == RegBase::Alt) {
                    let held = now.as_deref().map(id_set).unwrap_or_default();
                    for o in ops {
                        if !held.contains(&o.id.to_string()) {
                            out.oracle_fail("C07:union-of-valid-delivered", &hist, &format!("permitted op {} delivered for key {key} but the last accepted content is {now:?}", o.id));
                        }
                    }
                }
            }
            _ => {}
        }
    }
}

pub fn exec_line(ctx: &mut Ctx, line: &str, out: &mut Out) -> String {
    let ws: Vec<&str> = line.split_whitespace().collect();
    match ws.first().copied() {
        Some("new") if ws.len() == 3 => {
            let (Ok(cache), Some(entries)) = (ws[1].parse::<usize>(), parse_store_ordered(ws[2])) else { return "bad-op".into() };
            if cache == 0 {
                return "bad-op".into(); // `free_up_space` does not terminate for a cache size of 0
            }
            ctx.history = vec![line.to_string()];
            ctx.cache = cache;
            ctx.world = None; // drop the previous node first
            let mut w = SWorld::new(ctx.stub.clone(), cache);
            for (k, desc) in entries {
                if !w.seed(k, &desc) {
                    return "bad-op".into();
                }
            }
            ctx.world = Some(w);
            out.count(&format!("new:cache{cache}"));
            "ok".into()
        }
        Some("deliver") if ws.len() == 6 => {
            let Some(d) = parse_delivery(&ws[1..]) else { return "bad-op".into() };
            let Some(w) = ctx.world.as_mut() else { return "bad-op".into() };
            ctx.history.push(line.to_string());
            out.count(&format!("deliver:{}:{}", ws[1], ws[2]));
            let v = w.validate(d.clone());
            out.count(&format!("result:{}", v.res));
            oracle(ctx, &d, &v, out);
            fmt_out(&v.res, &v.toks)
        }
        Some("run") if ws.len() == 2 => {
            let (Ok(id), Some(w)) = (ws[1].parse::<u64>(), ctx.world.as_mut()) else { return "bad-op".into() };
            ctx.history.push(line.to_string());
            out.count("run");
            w.run_task(id)
        }
        Some("ack") if ws.len() == 2 => {
            let (Ok(id), Some(w)) = (ws[1].parse::<u64>(), ctx.world.as_mut()) else { return "bad-op".into() };
            ctx.history.push(line.to_string());
            out.count("ack");
            w.ack(id)
        }
        Some("get") if ws.len() == 2 => {
            let (Ok(k), Some(w)) = (ws[1].parse::<u64>(), ctx.world.as_mut()) else { return "bad-op".into() };
            ctx.history.push(line.to_string());
            w.get_desc(k).unwrap_or_else(|| "none".into())
        }
        Some("has") if ws.len() == 2 => {
            let (Ok(k), Some(w)) = (ws[1].parse::<u64>(), ctx.world.as_mut()) else { return "bad-op".into() };
            ctx.history.push(line.to_string());
            if w.has(k) { "1".into() } else { "0".into() }
        }
        Some("dump") => {
            let Some(w) = ctx.world.as_mut() else { return "bad-op".into() };
            ctx.history.push(line.to_string());
            let (text, listing) = w.dump();
            // settled read-back (C01's clause seen through this stack): with nothing in flight every key reads as
            // its last accepted content and is listed
            if w.nothing_pending() {
                let hist = ctx.history.join(" ; ");
                for (k, latest) in w.latest_all() {
                    match listing.iter().find(|e| e.0 == k) {
                        Some((_, desc, listed)) if *desc == latest && *listed => {}
                        other => out.oracle_fail("C07:settled-store-holds-last-accepted", &hist, &format!("nothing in flight, last accepted content of key {k} is {latest}, the store shows {other:?}")),
                    }
                }
            }
            text
        }
        _ => "bad-op".into(),
    }
}

fn main() {
    if std::env::var("VERIF_PANIC").is_err() {
        std::panic::set_hook(Box::new(|_| {}));
    }
    let args = common::parse_args();
    // scratch directories under the run's output directory, never under /tmp (see hnet/store.rs)
    real::set_scratch(args.out.join("scratch"));
    let mut out = Out::new(&args.out);
    let stub = stub::start();
    let mut ctx = Ctx { world: None, stub: stub.clone(), history: vec![], cache: 1 };
    let mut replay: std::collections::VecDeque<String> = args.replay.as_ref().map(common::read_lines).unwrap_or_default().into();
    let mut g = hist::Gen::new(args.n, Rng::new(args.seed));
    loop {
        let line = if args.replay.is_some() {
            replay.pop_front()
        } else {
            let pending = ctx.world.as_ref().map(|w| w.pending()).unwrap_or_default();
            g.next(&pending)
        };
        let Some(line) = line else { break };
        let o = exec_line(&mut ctx, &line, &mut out);
        if line.starts_with("deliver") {
            out.nontrivial_case(&format!("{} {}", ctx.cache, line));
        }
        out.line(line.clone(), o);
    }
    ctx.world = None;
    let _ = std::fs::remove_dir_all(args.out.join("scratch"));
    let unexpected = stub.state.lock().expect("stub").unexpected.clone();
    if !unexpected.is_empty() {
        out.notes.push(format!("stub saw unexpected requests: {:?}", &unexpected[..unexpected.len().min(3)]));
    }
    out.notes.push("validate-store: real Node::validate_and_store_record / store_replicated_in_record over a real node SwarmDriver's record store (handle_local_cmd for RecordStoreHasKey / GetLocalRecord / PutLocalRecord / AddLocalRecordAsStored); disk writes and acknowledgements scheduled by the op lines".to_string());
    out.finish();
}
