//! C13, client side: the real `Network::get_store_quote_from_network(addr, ignore_peers)` over a `Network` whose
//! command channel ends in this harness. `GetClosestPeersToAddressFromNetwork` is answered with the listed peers,
//! every `SendRequest(Query::GetStoreQuote)` with the response the op line prescribes for that peer.
//!
//! Line protocol (inputs only; peers are small integers = ed25519 keys from fixed seeds, `S` = the client's own id):
//!   fetch found=<id.id...|-> ignore=<id.id...|-> ord=<k> <id>=<resp> ...
//!     found  answer to the closest-peers query (at most 7 besides `S`: which 7 of more are closest is C11's matter)
//!     ord    the pending request answered next is number `k mod pending` (completion order)
//!     resp   q:<addr>:<signer>:<content>  a quote:  addr    = what the response's `peer_address` names: s (the responder) |
//!                                                          p<j> (peer j) | n (not a peer address)
//!                                                  signer  = whose key and valid signature the quote carries: s | p<j> |
//!                                                          g (responder's key, signature does not verify)
//!                                                  content = o (quote for the requested address) | x (for another one)
//!            e (quote: Err(RecordExists))  E (quote: Err(other))  n (NetworkError)  c (OutboundFailure::ConnectionClosed,
//!            also on the re-attempt)  d (reply channel dropped)  u (a response of another kind); no token = d
//! Output: `ok <ids of the peers whose quote is returned, ascending>` | `err notenough` | `err noresponses` | `err <other>`
//!   flow <peer 0..4> <live1> <paid1> <live2> <paid2>
//!     two fetches of the same address over the honest peers 0..4, one second apart; peer `<peer>`'s quote reports
//!     (live1, paid1) in the first and (live2, paid2) in the second. Besides the fetch results the harness reports whether
//!     the client handed the quotes it collected to ANYONE (any `LocalSwarmCmd`, any request other than the
//!     `GetStoreQuote` queries themselves): that is the only way a node's `quotes_verification` /
//!     `historical_verify` / `NodeIssue::BadQuoting` could ever see them.
//! Output: `<fetch 1> ; <fetch 2> ; relayed=none|some`
use ant_evm::{PaymentQuote, QuotingMetrics, RewardsAddress};
use ant_networking::verif::{LocalSwarmCmd, NetworkSwarmCmd};
use ant_networking::{Network, NetworkError};
use ant_protocol::messages::{Query, QueryResponse, Request, Response};
use ant_protocol::storage::ChunkAddress;
use ant_protocol::NetworkAddress;
use common::{Out, Rng};
use libp2p::identity::Keypair;
use libp2p::request_response::OutboundFailure;
use libp2p::PeerId;
use std::collections::BTreeMap;
use std::future::Future;
use std::panic::{catch_unwind, AssertUnwindSafe};
use tokio::sync::{mpsc, oneshot};
use xor_name::XorName;

const N_PEERS: u64 = 8;

fn keypair(i: u64) -> Keypair {
    let mut seed = [0u8; 32];
    seed[0] = 0x71;
    seed[31] = (i + 1) as u8;
    Keypair::ed25519_from_bytes(seed).expect("ed25519 seed")
}
fn self_keypair() -> Keypair {
    let mut seed = [0u8; 32];
    seed[0] = 0x72;
    Keypair::ed25519_from_bytes(seed).expect("ed25519 seed")
}
fn pid(i: u64) -> PeerId {
    PeerId::from(keypair(i).public())
}
fn peer_number(p: &PeerId) -> Option<u64> {
    (0..N_PEERS + 4).find(|i| &pid(*i) == p)
}

fn requested() -> XorName {
    XorName::from_content(b"verif quotefetch requested address")
}
fn other_content() -> XorName {
    XorName::from_content(b"verif quotefetch another address")
}

/// a quote for `content` carrying `key_of`'s public key, signed by `signed_by`
fn make_quote(key_of: &Keypair, signed_by: Option<&Keypair>, content: XorName) -> PaymentQuote {
    make_quote_with(key_of, signed_by, content, QuotingMetrics::default(), std::time::SystemTime::now())
}
fn make_quote_with(key_of: &Keypair, signed_by: Option<&Keypair>, content: XorName, quoting_metrics: QuotingMetrics, timestamp: std::time::SystemTime) -> PaymentQuote {
    let rewards_address = RewardsAddress::new([0x11; 20]);
    let bytes = PaymentQuote::bytes_for_signing(content, timestamp, &quoting_metrics, &rewards_address);
    let signature = match signed_by {
        Some(k) => k.sign(&bytes).expect("sign"),
        None => vec![0x5a; 64],
    };
    PaymentQuote { content, timestamp, quoting_metrics, rewards_address, pub_key: key_of.public().encode_protobuf(), signature }
}

#[derive(Clone)]
enum Answer {
    Resp(Response),
    NetErr,
    ConnClosed,
    Dropped,
}

fn parse_resp(tok: &str, responder: u64) -> Option<Answer> {
    match tok {
        "e" | "E" => {
            let err = if tok == "e" {
                ant_protocol::Error::RecordExists(ant_protocol::PrettyPrintRecordKey::from(&NetworkAddress::from_chunk_address(ChunkAddress::new(requested())).to_record_key()).into_owned())
            } else {
                ant_protocol::Error::GetStoreQuoteFailed
            };
            return Some(Answer::Resp(Response::Query(QueryResponse::GetStoreQuote {
                quote: Err(err),
                peer_address: NetworkAddress::from_peer(pid(responder)),
                storage_proofs: vec![],
            })));
        }
        "n" => return Some(Answer::NetErr),
        "c" => return Some(Answer::ConnClosed),
        "d" => return Some(Answer::Dropped),
        "u" => {
            return Some(Answer::Resp(Response::Query(QueryResponse::CheckNodeInProblem {
                reporter_address: NetworkAddress::from_peer(pid(responder)),
                target_address: NetworkAddress::from_peer(pid(responder)),
                is_in_trouble: false,
            })))
        }
        _ => {}
    }
    let p: Vec<&str> = tok.split(':').collect();
    if p.len() != 4 || p[0] != "q" {
        return None;
    }
    let peer_address = match p[1] {
        "s" => NetworkAddress::from_peer(pid(responder)),
        "n" => NetworkAddress::from_chunk_address(ChunkAddress::new(other_content())),
        a => NetworkAddress::from_peer(pid(a.strip_prefix('p')?.parse().ok()?)),
    };
    let content = match p[3] {
        "o" => requested(),
        "x" => other_content(),
        _ => return None,
    };
    let quote = match p[2] {
        "s" => make_quote(&keypair(responder), Some(&keypair(responder)), content),
        "g" => make_quote(&keypair(responder), None, content),
        s => {
            let j: u64 = s.strip_prefix('p')?.parse().ok()?;
            make_quote(&keypair(j), Some(&keypair(j)), content)
        }
    };
    Some(Answer::Resp(Response::Query(QueryResponse::GetStoreQuote { quote: Ok(quote), peer_address, storage_proofs: vec![] })))
}

fn parse_ids(s: &str) -> Option<Vec<Option<u64>>> {
    if s == "-" {
        return Some(vec![]);
    }
    s.split('.').map(|t| if t == "S" { Some(None) } else { t.parse::<u64>().ok().map(Some) }).collect()
}

struct Case {
    found: Vec<PeerId>,
    ignore: Vec<PeerId>,
    ord: usize,
    answers: BTreeMap<u64, Answer>,
}

fn parse_case(line: &str) -> Option<Case> {
    let ws: Vec<&str> = line.split_whitespace().collect();
    if ws.first() != Some(&"fetch") {
        return None;
    }
    let mut found = None;
    let mut ignore = None;
    let mut ord = 0usize;
    let mut answers = BTreeMap::new();
    let me = PeerId::from(self_keypair().public());
    for w in &ws[1..] {
        let (k, v) = w.split_once('=')?;
        match k {
            "found" => found = Some(parse_ids(v)?.into_iter().map(|i| i.map(pid).unwrap_or(me)).collect::<Vec<_>>()),
            "ignore" => ignore = Some(parse_ids(v)?.into_iter().map(|i| i.map(pid).unwrap_or(me)).collect::<Vec<_>>()),
            "ord" => ord = v.parse().ok()?,
            id => {
                let id: u64 = id.parse().ok()?;
                answers.insert(id, parse_resp(v, id)?);
            }
        }
    }
    Some(Case { found: found?, ignore: ignore?, ord, answers })
}

type ReplyTx = oneshot::Sender<std::result::Result<Response, NetworkError>>;

/// run the real call, playing the swarm driver; returns the result and the peers that were asked
fn run_case(rt: &tokio::runtime::Runtime, c: &Case) -> (Option<Result<Vec<(PeerId, PaymentQuote)>, NetworkError>>, Vec<PeerId>) {
    let (r, asked, _) = run_case_relay(rt, c);
    (r, asked)
}

/// … and how many commands the client issued besides the closest-peers query and the `GetStoreQuote` requests
fn run_case_relay(rt: &tokio::runtime::Runtime, c: &Case) -> (Option<Result<Vec<(PeerId, PaymentQuote)>, NetworkError>>, Vec<PeerId>, usize) {
    let (net_tx, mut net_rx) = mpsc::channel::<NetworkSwarmCmd>(10_000);
    let (local_tx, mut local_rx) = mpsc::channel::<LocalSwarmCmd>(10_000);
    let mut relayed = 0usize;
    let kp = self_keypair();
    let network = Network::new(net_tx, local_tx, PeerId::from(kp.public()), kp);
    let addr = NetworkAddress::from_chunk_address(ChunkAddress::new(requested()));
    let mut asked: Vec<PeerId> = vec![];
    let res = rt.block_on(async {
        let fut = network.get_store_quote_from_network(addr, c.ignore.clone());
        tokio::pin!(fut);
        let mut pending: Vec<(PeerId, ReplyTx)> = vec![];
        for _ in 0..100_000 {
            if let std::task::Poll::Ready(v) = futures::poll!(&mut fut) {
                return Some(v);
            }
            for _ in 0..4 {
                tokio::task::yield_now().await;
                while let Ok(cmd) = net_rx.try_recv() {
                    match cmd {
                        NetworkSwarmCmd::GetClosestPeersToAddressFromNetwork { sender, .. } => {
                            let _ = sender.send(c.found.clone());
                        }
                        NetworkSwarmCmd::SendRequest { req, peer, sender } => {
                            if let (Request::Query(Query::GetStoreQuote { .. }), Some(tx)) = (&req, sender) {
                                asked.push(peer);
                                pending.push((peer, tx));
                            } else {
                                relayed += 1;
                            }
                        }
                        _ => relayed += 1,
                    }
                }
                while local_rx.try_recv().is_ok() {
                    relayed += 1;
                }
            }
            if pending.is_empty() {
                continue;
            }
            let (peer, tx) = pending.remove(c.ord % pending.len());
            let ans = peer_number(&peer).and_then(|n| c.answers.get(&n).cloned()).unwrap_or(Answer::Dropped);
            match ans {
                Answer::Resp(r) => {
                    let _ = tx.send(Ok(r));
                }
                Answer::NetErr => {
                    let _ = tx.send(Err(NetworkError::NoStoreCostResponses));
                }
                Answer::ConnClosed => {
                    let _ = tx.send(Err(NetworkError::OutboundError(OutboundFailure::ConnectionClosed)));
                }
                Answer::Dropped => drop(tx),
            }
        }
        None
    });
    // whatever was queued by tasks the call spawned
    rt.block_on(async {
        for _ in 0..8 {
            tokio::task::yield_now().await;
        }
    });
    while net_rx.try_recv().is_ok() {
        relayed += 1;
    }
    while local_rx.try_recv().is_ok() {
        relayed += 1;
    }
    (res, asked, relayed)
}

fn show_result(res: &Option<Result<Vec<(PeerId, PaymentQuote)>, NetworkError>>) -> String {
    match res {
        None => "stuck".into(),
        Some(Err(_)) => "err".into(),
        Some(Ok(quotes)) => {
            let mut ids: Vec<u64> = quotes.iter().filter_map(|(p, _)| peer_number(p)).collect();
            ids.sort();
            std::iter::once("ok".to_string()).chain(ids.iter().map(|i| i.to_string())).collect::<Vec<_>>().join(" ")
        }
    }
}

/// `flow`: two client fetches; what the quoted node reports goes down from the first to the second
fn exec_flow(rt: &tokio::runtime::Runtime, line: &str, out: &mut Out) -> String {
    let ws: Vec<&str> = line.split_whitespace().collect();
    let nums: Option<Vec<u64>> = ws[1..].iter().map(|w| w.parse().ok()).collect();
    let Some(v) = nums else { return "bad-op".into() };
    if v.len() != 5 || v[0] > 4 {
        return "bad-op".into();
    }
    let t0 = std::time::SystemTime::now() - std::time::Duration::from_secs(2);
    let mut outs = vec![];
    let mut relayed_total = 0usize;
    let mut accepted_both = true;
    for round in 0..2u64 {
        let (live, paid) = if round == 0 { (v[1], v[2]) } else { (v[3], v[4]) };
        let mut answers = BTreeMap::new();
        for i in 0..5u64 {
            let metrics = if i == v[0] {
                QuotingMetrics { live_time: live, received_payment_count: paid as usize, ..QuotingMetrics::default() }
            } else {
                QuotingMetrics::default()
            };
            let q = make_quote_with(&keypair(i), Some(&keypair(i)), requested(), metrics, t0 + std::time::Duration::from_secs(round));
            answers.insert(i, Answer::Resp(Response::Query(QueryResponse::GetStoreQuote { quote: Ok(q), peer_address: NetworkAddress::from_peer(pid(i)), storage_proofs: vec![] })));
        }
        let c = Case { found: (0..5).map(pid).collect(), ignore: vec![], ord: 0, answers };
        let r = catch_unwind(AssertUnwindSafe(|| run_case_relay(rt, &c)));
        let Ok((res, _asked, relayed)) = r else {
            out.oracle_fail("no-panic", line, "get_store_quote_from_network panicked");
            return "panic".into();
        };
        relayed_total += relayed;
        if let Some(Ok(quotes)) = &res {
            accepted_both &= quotes.iter().any(|(p, q)| *p == pid(v[0]) && q.quoting_metrics.received_payment_count == paid as usize && q.quoting_metrics.live_time == live);
        } else {
            accepted_both = false;
        }
        outs.push(show_result(&res));
    }
    if accepted_both && (v[3] < v[1] || v[4] < v[2]) {
        out.count(if relayed_total == 0 { "flow:lesser-later-quote-seen-by-no-node" } else { "flow:lesser-later-quote-relayed" });
    }
    format!("{} ; {} ; relayed={}", outs[0], outs[1], if relayed_total == 0 { "none" } else { "some" })
}

fn exec(rt: &tokio::runtime::Runtime, line: &str, out: &mut Out, wrong_content_accepted: &mut u64) -> String {
    if line.starts_with("flow ") {
        return exec_flow(rt, line, out);
    }
    let Some(c) = parse_case(line) else { return "bad-op".into() };
    let r = catch_unwind(AssertUnwindSafe(|| run_case(rt, &c)));
    let (res, asked) = match r {
        Ok(x) => x,
        Err(_) => {
            out.oracle_fail("no-panic", line, "get_store_quote_from_network panicked");
            return "panic".into();
        }
    };
    match res {
        None => {
            out.oracle_fail("no-panic", line, "get_store_quote_from_network did not finish");
            "stuck".into()
        }
        Some(Err(NetworkError::NotEnoughPeers { .. })) => "err notenough".into(),
        Some(Err(NetworkError::NoStoreCostResponses)) => "err noresponses".into(),
        Some(Err(e)) => format!("err {}", format!("{e:?}").split(['(', ' ', '{']).next().unwrap_or("?")),
        Some(Ok(quotes)) => {
            let mut ids = vec![];
            for (peer, quote) in &quotes {
                let n = peer_number(peer);
                ids.push(n.map(|n| n.to_string()).unwrap_or_else(|| "?".into()));
                // ---- oracle: the pair becomes (payee, quote) of a ProofOfPayment, so the quote must be the responder's own
                let by_method = quote.check_is_signed_by_claimed_peer(*peer);
                // the same, with libp2p alone: the carried key is the responder's and the signature verifies under it
                let independent = libp2p::identity::PublicKey::try_decode_protobuf(&quote.pub_key)
                    .map(|pk| PeerId::from(pk.clone()) == *peer && pk.verify(&quote.bytes_for_sig(), &quote.signature))
                    .unwrap_or(false);
                if !by_method || !independent {
                    out.oracle_fail(
                        "fetched-quote-bound-to-responder",
                        line,
                        &format!(
                            "get_store_quote_from_network returned a quote attributed to peer {} that is not signed by that peer (response {})",
                            n.map(|n| n.to_string()).unwrap_or_else(|| "?".into()),
                            n.and_then(|n| line.split_whitespace().find(|w| w.starts_with(&format!("{n}=")))).unwrap_or("?")
                        ),
                    );
                }
                if !asked.contains(peer) || c.ignore.contains(peer) {
                    out.oracle_fail("fetched-quote-bound-to-responder", line, "a returned quote is attributed to a peer that was not asked or was to be ignored");
                }
                if quote.content != requested() {
                    // not part of C13 (the node refuses such a payment at put time, C03): counted, reported in the notes
                    *wrong_content_accepted += 1;
                }
            }
            ids.sort_by_key(|s| s.parse::<u64>().unwrap_or(u64::MAX));
            if ids.is_empty() {
                "ok".into()
            } else {
                format!("ok {}", ids.join(" "))
            }
        }
    }
}

fn gen_resp(rng: &mut Rng, me: u64) -> String {
    let other = |rng: &mut Rng| {
        let mut j = rng.below(N_PEERS);
        if j == me {
            j = (j + 1) % N_PEERS;
        }
        j
    };
    match rng.below(20) {
        0..=8 => "q:s:s:o".into(),
        9 => format!("q:p{0}:p{0}:o", other(rng)),
        10 => format!("q:s:p{}:o", other(rng)),
        11 => format!("q:p{}:s:o", other(rng)),
        12 => format!("q:{}:{}:{}", rng.pick(&["s", "n", "p2", "p5"]), rng.pick(&["s", "g", "p1", "p4", "p6"]), rng.pick(&["o", "x"])),
        13 => "q:s:g:o".into(),
        14 => "q:s:s:x".into(),
        15 => "e".into(),
        16 => "E".into(),
        17 => rng.pick(&["n", "c", "d"]).to_string(),
        18 => "u".into(),
        _ => format!("q:n:p{}:o", other(rng)),
    }
}

fn gen_case(rng: &mut Rng) -> String {
    let n = match rng.below(10) {
        0 => rng.range(0, 4),
        _ => rng.range(5, 7),
    };
    let mut ids: Vec<u64> = (0..N_PEERS).collect();
    rng.shuffle(&mut ids);
    ids.truncate(n as usize);
    let mut found: Vec<String> = ids.iter().map(|i| i.to_string()).collect();
    if rng.chance(1, 4) {
        let at = rng.below(found.len() as u64 + 1) as usize;
        found.insert(at, "S".into());
    }
    let ignore: Vec<String> = if rng.chance(1, 3) {
        ids.iter().filter(|_| rng.chance(1, 3)).map(|i| i.to_string()).collect()
    } else if rng.chance(1, 30) {
        ids.iter().map(|i| i.to_string()).collect()
    } else {
        vec![]
    };
    let many_exist = rng.chance(1, 8);
    let mut toks = vec![];
    for i in &ids {
        if rng.chance(1, 25) {
            continue; // no token: no reply
        }
        let r = if many_exist && rng.chance(1, 2) { "e".to_string() } else { gen_resp(rng, *i) };
        toks.push(format!("{i}={r}"));
    }
    format!(
        "fetch found={} ignore={} ord={} {}",
        if found.is_empty() { "-".into() } else { found.join(".") },
        if ignore.is_empty() { "-".into() } else { ignore.join(".") },
        rng.below(7),
        toks.join(" ")
    )
    .trim_end()
    .to_string()
}

/// the minimal replay / wrong-signer inputs first
const CORPUS: &[&str] = &[
    "fetch found=0.1.2.3.4 ignore=- ord=0 0=q:s:s:o 1=q:s:s:o 2=q:s:s:o 3=q:s:s:o 4=q:s:s:o",
    "fetch found=0.1.2.3.4 ignore=- ord=0 0=q:s:s:o 1=q:p3:p3:o 2=q:s:s:o 3=q:s:s:o 4=q:s:s:o",
    "fetch found=0.1.2.3.4 ignore=- ord=3 0=q:s:s:o 1=q:p7:p7:o 2=q:s:s:o 3=q:s:s:o 4=q:s:s:o",
    "fetch found=0.1.2.3.4 ignore=- ord=1 0=q:s:s:o 1=q:s:p3:o 2=q:s:s:o 3=q:s:s:o 4=q:s:s:o",
    "fetch found=0.1.2.3.4 ignore=- ord=1 0=q:s:s:o 1=q:n:p3:o 2=q:s:s:o 3=q:s:s:o 4=q:s:s:o",
    "fetch found=0.1.2.3.4 ignore=- ord=2 0=q:s:s:o 1=q:p3:s:o 2=q:s:s:o 3=q:s:s:o 4=q:s:s:o",
    "fetch found=0.1.2.3.4 ignore=- ord=2 0=q:s:s:o 1=q:n:s:o 2=q:s:s:o 3=q:s:s:o 4=q:s:s:o",
    "fetch found=0.1.2.3.4 ignore=- ord=0 0=q:s:g:o 1=q:p3:g:o 2=q:s:s:o 3=q:s:s:o 4=q:s:s:o",
    "fetch found=0.1.2.3.4 ignore=- ord=0 0=q:s:s:x 1=q:s:s:o 2=q:s:s:o 3=q:s:s:o 4=q:s:s:o",
    "fetch found=0.1.2.3.4 ignore=- ord=0 0=q:p1:p1:o 1=q:p2:p2:o 2=q:p3:p3:o 3=q:p4:p4:o 4=q:p0:p0:o",
    "fetch found=0.1.2.3.4.5.6 ignore=1.2 ord=5 0=q:s:s:o 1=q:s:s:o 2=q:s:s:o 3=q:p1:p1:o 4=q:s:s:o 5=E 6=n",
    "fetch found=0.1.2.3.4 ignore=- ord=0 0=e 1=e 2=q:s:s:o 3=q:s:s:o 4=q:s:s:o",
    "fetch found=0.1.2.3.4 ignore=- ord=0 0=e 1=q:s:s:o 2=q:s:s:o 3=q:s:s:o 4=q:s:s:o",
    "fetch found=0.1.2.3.4 ignore=0.1.2.3 ord=0 4=e",
    "fetch found=0.1.2.3.4 ignore=0.1.2.3.4 ord=0",
    "fetch found=0.1.2.3 ignore=- ord=0 0=q:s:s:o 1=q:s:s:o 2=q:s:s:o 3=q:s:s:o",
    "fetch found=0.1.S.2.3 ignore=- ord=0 0=q:s:s:o 1=q:s:s:o 2=q:s:s:o 3=q:s:s:o",
    "fetch found=0.1.S.2.3.4 ignore=- ord=4 0=c 1=d 2=u 3=n 4=q:s:s:o",
    "fetch found=- ignore=- ord=0",
    // K-q: the node quotes paid=10, then paid=3 one second later: both quotes are accepted for payment, nobody is told
    "flow 1 10 10 10 3",
    "flow 3 500 7 20 7",
    "flow 0 5 5 6 6",
];

fn main() {
    std::panic::set_hook(Box::new(|_| {}));
    let args = common::parse_args();
    let mut out = Out::new(&args.out);
    let rt = tokio::runtime::Builder::new_current_thread().enable_all().build().expect("runtime");
    let lines: Vec<String> = match &args.replay {
        Some(p) => common::read_lines(p),
        None => {
            let mut rng = Rng::new(args.seed);
            let mut v: Vec<String> = CORPUS.iter().map(|s| s.to_string()).collect();
            for _ in 0..args.n {
                if rng.chance(1, 40) {
                    let (l, c) = (rng.below(1000), rng.below(1000));
                    v.push(format!("flow {} {l} {c} {} {}", rng.below(5), if rng.chance(1, 2) { l.saturating_sub(rng.below(5)) } else { l + rng.below(5) }, if rng.chance(1, 2) { c.saturating_sub(rng.below(5)) } else { c + rng.below(5) }));
                    continue;
                }
                v.push(gen_case(&mut rng));
            }
            v
        }
    };
    let mut wrong_content = 0u64;
    for line in &lines {
        let res = exec(&rt, line, &mut out, &mut wrong_content);
        if line.starts_with("flow ") {
            out.count(&format!("flow:{}", res.rsplit(' ').next().unwrap_or("?")));
            out.nontrivial_case(line);
            out.line(line.clone(), res);
            continue;
        }
        out.count(&format!("fetch:{}", res.split(' ').take(if res.starts_with("err") { 2 } else { 1 }).collect::<Vec<_>>().join("-")));
        for w in line.split_whitespace().skip(1) {
            if let Some((k, v)) = w.split_once('=') {
                if k.parse::<u64>().is_ok() {
                    out.count(&format!("resp:{}", if v.starts_with("q:") { let p: Vec<&str> = v.split(':').collect(); format!("q:{}:{}:{}", &p[1][..1], &p[2][..1], p[3]) } else { v.to_string() }));
                }
            }
        }
        out.nontrivial_case(line);
        out.line(line.clone(), res);
    }
    out.notes.push(format!(
        "quotefetch: real Network::get_store_quote_from_network over a harness-answered command channel; {} corpus lines first; returned quotes whose content address is not the requested one: {wrong_content} (accepted by the client — outside C13, the node refuses such a payment at put time)",
        CORPUS.len()
    ));
    out.finish();
}
