//! C16 (peripheral call site): ant-cli's `collect_upload_summary` must report the exact sum of the upload costs,
//! whatever the split between events consumed before and after the completion signal.
//! The real source file of the bin-only crate is compiled in with #[path].
//! Op:  clisum <k> <a1> <a2> …   — k events are queued before the collector is polled at all and the completion
//!      signal is sent after ALL events are queued; because `select!` picks ready branches at random, the split
//!      between loop-consumed and drained events is the implementation's choice — the total must not depend on it.
//!      The op line records k only as a hint for the model (the model's total is split-independent when the code
//!      accumulates, and split-dependent when an arm assigns: then the harness reports the real split as a witness).
#[path = "/repo/ant-cli/src/utils.rs"]
#[allow(dead_code)]
mod utils;

use autonomi::client::{Amount, ClientEvent, UploadSummary};
use common::{Out, Rng};
use num_bigint::BigUint;
use std::str::FromStr;

fn run_case(amounts: &[BigUint], pre: usize) -> (String, usize) {
    let rt = tokio::runtime::Builder::new_current_thread().enable_all().build().expect("rt");
    rt.block_on(async {
        let (tx, rx) = tokio::sync::mpsc::channel::<ClientEvent>(amounts.len().max(1) + 1);
        let (handle, done) = utils::collect_upload_summary(rx);
        for (i, a) in amounts.iter().enumerate() {
            let ev = ClientEvent::UploadComplete(UploadSummary {
                record_count: 1,
                tokens_spent: Amount::from_str(&a.to_string()).expect("amount"),
            });
            tx.send(ev).await.expect("send");
            if i + 1 == pre {
                // let the collector run on what is queued so far
                tokio::task::yield_now().await;
            }
        }
        let _ = done.send(());
        let s = handle.await.expect("join");
        (s.tokens_spent.to_string(), s.record_count)
    })
}

fn main() {
    let args = common::parse_args();
    let mut out = Out::new(&args.out);
    std::panic::set_hook(Box::new(|_| {}));
    let lines: Vec<String> = if let Some(p) = &args.replay {
        common::read_lines(p)
    } else {
        let mut rng = Rng::new(args.seed);
        let mut v = vec![
            "clisum 0".to_string(),
            "clisum 0 5".to_string(),
            "clisum 1 5".to_string(),
            "clisum 0 1000000000000000040 40000000000000000780".to_string(),
            "clisum 1 1000000000000000040 40000000000000000780".to_string(),
            "clisum 2 1 2 3 4 5 6 7 8 9 10".to_string(),
        ];
        for _ in 0..args.n {
            let n = *rng.pick(&[0u64, 1, 2, 2, 3, 5, 8, 20, 40]);
            let amounts: Vec<String> = (0..n)
                .map(|_| match rng.below(4) {
                    0 => "0".to_string(),
                    1 => (rng.next() % 1000).to_string(),
                    2 => (BigUint::from(10u8).pow(18) * BigUint::from(rng.next() % 100000)).to_string(),
                    _ => BigUint::from_bytes_be(&rng.bytes(20)).to_string(), // < 2^160: sums stay representable
                })
                .collect();
            let k = rng.below(n + 1);
            v.push(format!("clisum {k} {}", amounts.join(" ")).trim_end().to_string());
        }
        v
    };
    for l in &lines {
        let ws: Vec<&str> = l.split_whitespace().collect();
        if ws.first() != Some(&"clisum") || ws.len() < 2 {
            out.line(l.clone(), "bad-op");
            continue;
        }
        let k: usize = ws[1].parse().expect("k");
        let amounts: Vec<BigUint> = ws[2..].iter().map(|a| BigUint::parse_bytes(a.as_bytes(), 10).expect("dec")).collect();
        let (total, count) = run_case(&amounts, k);
        let exact: BigUint = amounts.iter().sum();
        if exact >= (BigUint::from(1u8) << 256) {
            // hypothesis of cli_summary_exact_partial (SumRepresentable) not met: the known finding, not a new failure
            if total != exact.to_string() {
                out.known_hit("K-s-cost-sums-wrap", &format!("`{l}`: reported total {total}, exact sum {exact} is not representable"));
            }
        } else if total != exact.to_string() {
            out.oracle_fail("cli-total-is-exact-sum", l, &format!("reported total {total}, exact sum of the {} upload costs is {exact}", amounts.len()));
        }
        if count != amounts.len() {
            out.oracle_fail("cli-record-count", l, &format!("reported {count} records for {} events", amounts.len()));
        }
        out.count(&format!("clisum:n={}", amounts.len().min(9)));
        out.nontrivial_case(l);
        out.line(l.clone(), format!("total {total}"));
    }
    out.finish();
}
