//! C17, coverage round 2 (client side): ant-cli's `access/` modules (register signing key from the environment or a file,
//! the local user-data folders), `wallet export`, autonomi's relative-path helper and the MessagePack decoders of user data.
//! ant-cli is bin-only: access/{data_dir,keys,user_data}.rs and commands/wallet.rs are compiled in with #[path];
//! `get_relative_file_path_from_abs_file_and_folder_path` is crate-private in autonomi: its source text is compiled in by the build script.
//!   regkey <env|file|none> <b> <tp>   keys::get_register_signing_key() with REGISTER_SIGNING_KEY = <b> / the key file holding <b>;
//!                                     tp = na (not UTF-8) | 0 | 1: bls SecretKey::from_hex verdict (called directly) -> ok | err | panic
//!   udreg <n>… <tp>                   user_data::get_local_registers() on a registers folder holding files with these raw names;
//!                                     tp = per name na|0|1 joined by `,`: RegisterAddress::from_hex verdict on the lossy name (`-` none) -> ok <count> | err | panic
//!   udpub <n>…                        user_data::get_local_public_file_archives() likewise (names are str_to_addr'ed) -> ok <count> | err | panic
//!   udpriv <s> <b> <tp>               user_data::get_local_private_archive_access(<s>) with that file holding <b>;
//!                                     tp = err | sa:<s>: serde_json's view of the file (secret_access field) -> ok <b> | err | panic
//!   udprivs <b>… <tp>…                user_data::get_local_private_file_archives() on a folder of files 0,1,… holding these contents -> ok <count> | err | panic
//!                                     (op line: contents first, then one tp per content)
//!   walletexport <plain|enc> <b> <key>  commands::wallet::export() with exactly one wallet file (fixed address) holding <b>;
//!                                     key = na | bad | ok: Wallet::new_from_private_key verdict on the content -> ok | err | panic
//!   relpath <f> <d> <file|dir> <fc> <dc>  get_relative_file_path_from_abs_file_and_folder_path(f, d) where d is an existing file / not;
//!                                     fc, dc = std's components of the two paths (R root, C `.`, P `..`, N:<b> normal; `-` none) -> ok <components> | panic
//!   mpdec <userdata|pubarchive|privarchive|nodeevent> <b> <tp>   the `from_bytes` of that type; tp = ok | err (rmp_serde called directly) -> ok | err | panic
//!   mprt <userdata|pubarchive|privarchive> <n> <seed>             to_bytes then from_bytes of a generated value with n entries -> ok same | ok differs | err | panic
use common::{hex, unhex, Out, Rng};
use std::os::unix::ffi::OsStrExt;
use std::path::{Component, Path, PathBuf};

#[allow(dead_code)]
mod autonomi_files {
    use std::path::{Path, PathBuf};
    include!(concat!(env!("OUT_DIR"), "/autonomi_relative_file_path.rs"));
    pub fn call(f: &Path, d: &Path) -> PathBuf {
        get_relative_file_path_from_abs_file_and_folder_path(f, d)
    }
}

pub const EXPORT_ADDRESS: &str = "0x52908400098527886E0F7030069857D2E4169EE7";

fn s_of(h: &str) -> Option<String> {
    String::from_utf8(unhex(h)?).ok()
}

fn hx(s: &str) -> String {
    hex(s.as_bytes())
}

fn valid_file_name(n: &[u8]) -> bool {
    !n.is_empty() && n.len() <= 255 && n != b"." && n != b".." && !n.contains(&b'/') && !n.contains(&0)
}

fn fresh_dir(p: &Path) {
    let _ = std::fs::remove_dir_all(p);
    std::fs::create_dir_all(p).expect("create dir");
}

fn client_dir(tmp: &Path) -> PathBuf {
    tmp.join("data").join("autonomi").join("client")
}

fn comps(p: &Path) -> String {
    let v: Vec<String> = p
        .components()
        .map(|c| match c {
            Component::RootDir => "R".to_string(),
            Component::CurDir => "C".to_string(),
            Component::ParentDir => "P".to_string(),
            Component::Normal(n) => format!("N:{}", hex(n.as_bytes())),
            Component::Prefix(_) => "X".to_string(),
        })
        .collect();
    if v.is_empty() { "-".into() } else { v.join(",") }
}

extern "C" {
    fn dup(fd: i32) -> i32;
    fn dup2(a: i32, b: i32) -> i32;
    fn close(fd: i32) -> i32;
}

/// run `f` with the process's stdout pointed at /dev/null (the CLI commands print keys and tables)
fn quiet<T>(f: impl FnOnce() -> T) -> T {
    use std::os::fd::AsRawFd;
    use std::io::Write;
    let _ = std::io::stdout().flush();
    let null = std::fs::OpenOptions::new().write(true).open("/dev/null").ok();
    let saved = unsafe { dup(1) };
    if let Some(n) = &null {
        unsafe { dup2(n.as_raw_fd(), 1) };
    }
    let r = std::panic::catch_unwind(std::panic::AssertUnwindSafe(f));
    let _ = std::io::stdout().flush();
    if saved >= 0 {
        unsafe {
            dup2(saved, 1);
            close(saved);
        }
    }
    match r {
        Ok(v) => v,
        Err(e) => std::panic::resume_unwind(e),
    }
}

#[derive(serde::Deserialize)]
struct MirrorPrivateFileArchive {
    #[allow(dead_code)]
    name: String,
    secret_access: String,
}

fn priv_verdict(content: &[u8]) -> String {
    match std::str::from_utf8(content).ok().and_then(|t| serde_json::from_str::<MirrorPrivateFileArchive>(t).ok()) {
        Some(m) => format!("sa:{}", hx(&m.secret_access)),
        None => "err".into(),
    }
}

fn reg_verdict(name: &[u8]) -> String {
    // RegisterAddress::from_hex = hex::decode, 80 bytes, then the BLS key check on the last 48
    match std::str::from_utf8(name).ok().and_then(|t| hex::decode(t).ok()) {
        Some(b) if b.len() == 80 => {
            let mut a = [0u8; 48];
            a.copy_from_slice(&b[32..]);
            if bls::PublicKey::from_bytes(a).is_ok() { "1".into() } else { "0".into() }
        }
        _ => "na".into(),
    }
}

fn archive_value(kind: &str, n: u64, seed: u64) -> Option<Result<(Vec<u8>, bool), ()>> {
    use autonomi::client::data::DataMapChunk;
    use autonomi::client::files::archive::{Metadata, PrivateArchive};
    use autonomi::client::files::archive_public::PublicArchive;
    use autonomi::client::vault::UserData;
    let mut rng = Rng::new(seed);
    let meta = |rng: &mut Rng| Metadata { uploaded: rng.below(u64::MAX), created: *rng.pick(&[0, 1, u64::MAX]), modified: rng.below(3), size: *rng.pick(&[0, u64::MAX, 7]) };
    let path = |rng: &mut Rng, i: u64| PathBuf::from(format!("{}/f{i}{}", rng.pick(&["a", "b/c", "", "é", ".."]), rng.pick(&["", ".txt", " "])));
    let dm = |rng: &mut Rng| {
        let l = rng.below(40) as usize;
        DataMapChunk::from(ant_protocol::storage::Chunk::new(bytes::Bytes::from(rng.bytes(l))))
    };
    let xn = |rng: &mut Rng| {
        let mut a = [0u8; 32];
        a.copy_from_slice(&rng.bytes(32));
        xor_name::XorName(a)
    };
    Some(match kind {
        "userdata" => {
            let mut u = UserData::new();
            for i in 0..n {
                if i % 2 == 0 {
                    u.add_file_archive_with_name(xn(&mut rng), format!("n{i}é"));
                } else {
                    u.add_private_file_archive_with_name(dm(&mut rng), format!("p{i}"));
                }
            }
            match u.to_bytes() {
                Ok(b) => match UserData::from_bytes(b.clone()) {
                    Ok(back) => Ok((b.to_vec(), back == u)),
                    Err(_) => Err(()),
                },
                Err(_) => Err(()),
            }
        }
        "pubarchive" => {
            let mut a = PublicArchive::new();
            for i in 0..n {
                a.add_file(path(&mut rng, i), xn(&mut rng), meta(&mut rng));
            }
            match a.to_bytes() {
                Ok(b) => match PublicArchive::from_bytes(b.clone()) {
                    Ok(back) => Ok((b.to_vec(), back == a)),
                    Err(_) => Err(()),
                },
                Err(_) => Err(()),
            }
        }
        "privarchive" => {
            let mut a = PrivateArchive::new();
            for i in 0..n {
                a.add_file(path(&mut rng, i), dm(&mut rng), meta(&mut rng));
            }
            match a.to_bytes() {
                Ok(b) => match PrivateArchive::from_bytes(b.clone()) {
                    Ok(back) => Ok((b.to_vec(), back == a)),
                    Err(_) => Err(()),
                },
                Err(_) => Err(()),
            }
        }
        _ => return None,
    })
}

fn mp_decode(kind: &str, b: &[u8], direct: bool) -> Option<bool> {
    use autonomi::client::files::archive::PrivateArchive;
    use autonomi::client::files::archive_public::PublicArchive;
    use autonomi::client::vault::UserData;
    let bytes = bytes::Bytes::from(b.to_vec());
    Some(match (kind, direct) {
        ("userdata", false) => UserData::from_bytes(bytes).is_ok(),
        ("userdata", true) => rmp_serde::from_slice::<UserData>(b).is_ok(),
        ("pubarchive", false) => PublicArchive::from_bytes(bytes).is_ok(),
        ("pubarchive", true) => rmp_serde::from_slice::<PublicArchive>(b).is_ok(),
        ("privarchive", false) => PrivateArchive::from_bytes(bytes).is_ok(),
        ("privarchive", true) => rmp_serde::from_slice::<PrivateArchive>(b).is_ok(),
        ("nodeevent", false) => ant_node::NodeEvent::from_bytes(b).is_ok(),
        ("nodeevent", true) => rmp_serde::from_slice::<ant_node::NodeEvent>(b).is_ok(),
        _ => return None,
    })
}

pub fn exec(ws: &[&str], tmp: &Path, op: &mut String) -> Option<String> {
    Some(match ws {
        ["regkey", src, b, ..] => {
            let Some(bytes) = unhex(b) else { return Some("bad-op".into()) };
            if !["env", "file", "none"].contains(src) || (*src == "env" && (bytes.contains(&0))) {
                return Some("bad-op".into());
            }
            let tp = match std::str::from_utf8(&bytes) {
                Ok(t) => if autonomi::client::registers::RegisterSecretKey::from_hex(t).is_ok() { "1" } else { "0" },
                Err(_) => "na",
            };
            *op = format!("regkey {src} {b} {tp}");
            let file = client_dir(tmp).join("register_signing_key");
            let _ = std::fs::remove_file(&file);
            std::env::remove_var("REGISTER_SIGNING_KEY");
            match *src {
                "env" => std::env::set_var("REGISTER_SIGNING_KEY", std::ffi::OsStr::from_bytes(&bytes)),
                "file" => {
                    std::fs::create_dir_all(client_dir(tmp)).expect("client dir");
                    std::fs::write(&file, &bytes).expect("write key file");
                }
                _ => {}
            }
            let r = crate::keys::get_register_signing_key();
            std::env::remove_var("REGISTER_SIGNING_KEY");
            match r {
                Ok(_) => "ok".into(),
                Err(_) => "err".into(),
            }
        }
        ["udreg", rest @ ..] | ["udpub", rest @ ..] => {
            let names_hex: Vec<&str> = if ws[0] == "udreg" && !rest.is_empty() { rest[..rest.len() - 1].to_vec() } else { rest.to_vec() };
            let Some(names) = names_hex.iter().map(|n| unhex(n)).collect::<Option<Vec<Vec<u8>>>>() else { return Some("bad-op".into()) };
            let distinct: std::collections::BTreeSet<&Vec<u8>> = names.iter().collect();
            if distinct.len() != names.len() || !names.iter().all(|n| valid_file_name(n)) {
                return Some("bad-op".into());
            }
            let dir = client_dir(tmp).join("user_data").join(if ws[0] == "udreg" { "registers" } else { "file_archives" });
            fresh_dir(&dir);
            for n in &names {
                if std::fs::write(dir.join(std::ffi::OsStr::from_bytes(n)), b"name").is_err() {
                    return Some("bad-op".into());
                }
            }
            if ws[0] == "udreg" {
                let tp: Vec<String> = names.iter().map(|n| reg_verdict(n)).collect();
                *op = format!("udreg {} {}", names_hex.join(" "), if tp.is_empty() { "-".to_string() } else { tp.join(",") }).replace("  ", " ");
                match crate::user_data::get_local_registers() {
                    Ok(m) => format!("ok {}", m.len()),
                    Err(_) => "err".into(),
                }
            } else {
                match crate::user_data::get_local_public_file_archives() {
                    Ok(m) => format!("ok {}", m.len()),
                    Err(_) => "err".into(),
                }
            }
        }
        ["udpriv", name, b, ..] => {
            let (Some(name), Some(content)) = (s_of(name), unhex(b)) else { return Some("bad-op".into()) };
            if !valid_file_name(name.as_bytes()) {
                return Some("bad-op".into());
            }
            *op = format!("udpriv {} {b} {}", ws[1], priv_verdict(&content));
            let dir = client_dir(tmp).join("user_data").join("private_file_archives");
            fresh_dir(&dir);
            std::fs::write(dir.join(&name), &content).expect("write archive file");
            match crate::user_data::get_local_private_archive_access(&name) {
                Ok(a) => format!("ok {}", hex(&hex::decode(a.to_hex()).expect("to_hex prints hex"))),
                Err(_) => "err".into(),
            }
        }
        ["udprivs", rest @ ..] => {
            // contents, then (on a regenerated line) as many verdicts
            let contents_hex: Vec<&str> = rest.iter().copied().filter(|w| *w != "err" && !w.starts_with("sa:")).collect();
            let Some(contents) = contents_hex.iter().map(|n| unhex(n)).collect::<Option<Vec<Vec<u8>>>>() else { return Some("bad-op".into()) };
            let dir = client_dir(tmp).join("user_data").join("private_file_archives");
            fresh_dir(&dir);
            for (i, c) in contents.iter().enumerate() {
                std::fs::write(dir.join(i.to_string()), c).expect("write archive file");
            }
            let tps: Vec<String> = contents.iter().map(|c| priv_verdict(c)).collect();
            *op = format!("udprivs {} {}", contents_hex.join(" "), tps.join(" ")).trim_end().replace("  ", " ");
            match crate::user_data::get_local_private_file_archives() {
                Ok(m) => format!("ok {}", m.len()),
                Err(_) => "err".into(),
            }
        }
        ["walletexport", kind, b, ..] => {
            let Some(content) = unhex(b) else { return Some("bad-op".into()) };
            if !["plain", "enc"].contains(kind) {
                return Some("bad-op".into());
            }
            if *kind == "enc" {
                if let Ok(t) = std::str::from_utf8(&content) {
                    if hex::decode(t).map(|d| d.len() >= 20).unwrap_or(false) {
                        return Some("bad-op".into()); // would reach the KDF
                    }
                }
            }
            let verdict = match std::str::from_utf8(&content) {
                Ok(t) => match autonomi::Wallet::new_from_private_key(crate::wallet::DUMMY_NETWORK, t) {
                    Ok(_) => "ok",
                    Err(_) => "bad",
                },
                Err(_) => "na",
            };
            *op = format!("walletexport {kind} {b} {verdict}");
            let dir = client_dir(tmp).join("wallets");
            fresh_dir(&dir);
            let name = if *kind == "enc" { format!("{EXPORT_ADDRESS}.encrypted") } else { EXPORT_ADDRESS.to_string() };
            std::fs::write(dir.join(name), &content).expect("write wallet file");
            if let Ok(mut g) = crate::wallet::input::PASSWORD.lock() {
                *g = "pw".into();
            }
            match quiet(crate::wallet_cmd::export) {
                Ok(()) => "ok".into(),
                Err(_) => "err".into(),
            }
        }
        ["relpath", f, d, kind, ..] => {
            let (Some(f), Some(d)) = (unhex(f), unhex(d)) else { return Some("bad-op".into()) };
            if f.contains(&0) || d.contains(&0) || !["file", "dir"].contains(kind) {
                return Some("bad-op".into());
            }
            // `file`: the folder argument names an existing file (a single-file upload); the harness then works under its scratch directory
            let base = tmp.join("relpath");
            fresh_dir(&base);
            let (fp, dp) = if *kind == "file" {
                let rel_d = PathBuf::from(std::ffi::OsStr::from_bytes(&d));
                if rel_d.is_absolute() || rel_d.components().any(|c| !matches!(c, Component::Normal(_))) || d.is_empty() {
                    return Some("bad-op".into());
                }
                let dp = base.join(&rel_d);
                if let Some(p) = dp.parent() {
                    std::fs::create_dir_all(p).expect("dirs");
                }
                std::fs::write(&dp, b"x").expect("file");
                (dp.clone(), dp)
            } else {
                let dp = PathBuf::from(std::ffi::OsStr::from_bytes(&d));
                if dp.is_file() {
                    return Some("bad-op".into());
                }
                let fp = PathBuf::from(std::ffi::OsStr::from_bytes(&f));
                if !fp.starts_with(&dp) {
                    // precondition of the helper: the file was found by walking the folder (walkdir yields `folder.join(..)`)
                    return Some("bad-op".into());
                }
                (fp, dp)
            };
            *op = format!("relpath {} {} {kind} {} {}", ws[1], ws[2], comps(&fp), comps(&dp));
            let r = autonomi_files::call(&fp, &dp);
            format!("ok {}", comps(&r))
        }
        ["mpdec", kind, b, ..] => {
            let Some(bytes) = unhex(b) else { return Some("bad-op".into()) };
            let Some(tp) = mp_decode(kind, &bytes, true) else { return Some("bad-op".into()) };
            *op = format!("mpdec {kind} {b} {}", if tp { "ok" } else { "err" });
            match mp_decode(kind, &bytes, false) {
                Some(true) => "ok".into(),
                Some(false) => "err".into(),
                None => "bad-op".into(),
            }
        }
        ["mprt", kind, n, seed] => {
            let (Ok(n), Ok(seed)) = (n.parse::<u64>(), seed.parse::<u64>()) else { return Some("bad-op".into()) };
            if n > 200 {
                return Some("bad-op".into());
            }
            match archive_value(kind, n, seed) {
                Some(Ok((_, true))) => "ok same".into(),
                Some(Ok((_, false))) => "ok differs".into(),
                Some(Err(())) => "err".into(),
                None => "bad-op".into(),
            }
        }
        _ => return None,
    })
}

pub fn oracle(ws: &[&str], res: &str, line: &str, out: &mut Out) {
    match ws {
        ["mprt", ..] => {
            if res != "ok same" {
                out.oracle_fail("roundtrip", line, &format!("from_bytes(to_bytes(x)) did not return x: {res}"));
            }
        }
        ["walletexport", kind, content, ..] => {
            let c = unhex(content).unwrap_or_default();
            let t = String::from_utf8_lossy(&c).to_string();
            let h = t.strip_prefix("0x").unwrap_or(&t);
            let looks_like_key = h.len() == 64 && h.bytes().all(|b| b.is_ascii_hexdigit()) && h.bytes().any(|b| b != b'0');
            if res == "ok" && !(looks_like_key && *kind == "plain") {
                out.oracle_fail("wallet-key-sound", line, &format!("a wallet was exported from a file that does not hold a private key: {t:?}"));
            }
        }
        ["relpath", _, _, "dir", fc, dc] => {
            // for a file below the folder, the relative path ends with the file's components below the folder
            if let Some(r) = res.strip_prefix("ok ") {
                if *fc != "-" && *dc != "-" && fc.starts_with(*dc) && fc.len() > dc.len() {
                    let below = &fc[dc.len()..];
                    if !r.ends_with(below.trim_start_matches(',')) {
                        out.oracle_fail("relpath-suffix", line, &format!("relative path {r} does not end with {below}"));
                    }
                }
            }
        }
        _ => {}
    }
}

fn mutate(rng: &mut Rng, s: &str) -> String {
    let mut c: Vec<char> = s.chars().collect();
    match rng.below(5) {
        0 if !c.is_empty() => {
            let i = rng.below(c.len() as u64) as usize;
            c[i] = *rng.pick(&['g', ' ', '"', 'é', 'x', '\n', '}', ':']);
        }
        1 if !c.is_empty() => {
            let i = rng.below(c.len() as u64) as usize;
            c.remove(i);
        }
        2 => {
            let i = rng.below(c.len() as u64 + 1) as usize;
            c.insert(i, *rng.pick(&['0', 'a', 'z', '"']));
        }
        3 => c.truncate(rng.below(c.len() as u64 + 1) as usize),
        _ => c.extend(['0', '0']),
    }
    c.into_iter().collect()
}

fn valid_pk_hex(rng: &mut Rng) -> String {
    loop {
        let mut b = [0u8; 32];
        b.copy_from_slice(&rng.bytes(32));
        b[0] &= 0x3f;
        if let Ok(sk) = bls::SecretKey::from_bytes(b) {
            return hex::encode(sk.public_key().to_bytes());
        }
    }
}

fn valid_sk_hex(rng: &mut Rng) -> String {
    loop {
        let mut b = [0u8; 32];
        b.copy_from_slice(&rng.bytes(32));
        b[0] &= 0x3f;
        if let Ok(sk) = bls::SecretKey::from_bytes(b) {
            return sk.to_hex();
        }
    }
}

const PATHS: &[&str] = &[".", "..", "/", "", "a", "a/", "a/b", "/a", "/a/b", "./a", "../a", "a/..", "a/.", "a//b", "//", "/..", "./.", "a/b/..", "é", "a b", "/tmp/x", "..a", "a/../b"];

pub fn generate(rng: &mut Rng, n: u64) -> Vec<String> {
    let mut v: Vec<String> = vec![];
    // past minimal failures first
    v.push(format!("walletexport plain {} x", hx("not-a-private-key")));
    v.push("walletexport plain - x".into());
    v.push("walletexport plain fffe x".into());
    v.push(format!("walletexport enc {} x", hx("00ff")));
    v.push(format!("relpath {} {} dir x x", hx("./a.txt"), hx(".")));
    v.push(format!("relpath {} {} dir x x", hx("../a.txt"), hx("..")));
    v.push(format!("relpath {} {} dir x x", hx("/a.txt"), hx("/")));
    v.push(format!("relpath {} {} dir x x", hx("d/../a.txt"), hx("d/..")));
    for d in PATHS {
        for sub in ["a.txt", "s/b.txt"] {
            let f = if d.is_empty() { sub.to_string() } else if d.ends_with('/') { format!("{d}{sub}") } else { format!("{d}/{sub}") };
            v.push(format!("relpath {} {} dir x x", hx(&f), hx(d)));
        }
        v.push(format!("relpath {} {} dir x x", hx(d), hx(d)));
    }
    for d in ["f.txt", "a/f.txt", "a/b/c", "é.bin"] {
        v.push(format!("relpath - {} file x x", hx(d)));
    }
    let key = hex::encode(rng.bytes(32));
    for c in [key.clone(), format!("0x{key}"), key.to_uppercase(), format!("{key}\n"), "0".repeat(64), "f".repeat(64), key[..63].to_string(), format!("{key}0")] {
        v.push(format!("walletexport plain {} x", hx(&c)));
    }
    let sk = valid_sk_hex(rng);
    for c in [sk.clone(), sk.to_uppercase(), format!("{sk}\n"), format!(" {sk}"), sk[..63].to_string(), format!("{sk}00"), String::new(), "zz".to_string(), "0".repeat(64), "f".repeat(64), "é".repeat(32)] {
        v.push(format!("regkey env {} x", hx(&c)));
        v.push(format!("regkey file {} x", hx(&c)));
    }
    v.push("regkey none - x".into());
    v.push("regkey env ff x".into());
    v.push("regkey file fffe x".into());
    for len in 0..=34usize {
        let s = hex::encode(rng.bytes(len));
        v.push(format!("regkey env {} x", hx(&s)));
        if len > 0 {
            v.push(format!("udpub {}", hx(&s)));
            v.push(format!("udpub {}", hx(&s[1..])));
        }
    }
    let xn = hex::encode(rng.bytes(32));
    v.push("udpub".into());
    v.push(format!("udpub {}", hx(&xn)));
    v.push(format!("udpub {} {}", hx(&xn), hx(".DS_Store")));
    v.push(format!("udpub {} {}", hx(&xn), hex(&[b'a', 0xff])));
    let reg = format!("{}{}", hex::encode(rng.bytes(32)), valid_pk_hex(rng));
    v.push("udreg -".into());
    v.push(format!("udreg {} x", hx(&reg)));
    v.push(format!("udreg {} {} x", hx(&reg), hx("notes.txt")));
    v.push(format!("udreg {} x", hx(&reg[..158])));
    v.push(format!("udreg {} x", hx(&format!("{}{}", &reg[..64], "00".repeat(48)))));
    v.push(format!("udreg {} x", hex(&[b'a', 0xff])));
    for len in [0usize, 1, 31, 32, 33, 79, 80, 81, 82] {
        if len > 0 && len * 2 <= 255 {
            v.push(format!("udreg {} x", hx(&hex::encode(rng.bytes(len)))));
        }
    }
    let good_priv = |sa: &str| format!("{{\"name\":\"my files\",\"secret_access\":\"{sa}\"}}");
    for c in [good_priv("00ff"), good_priv(""), good_priv("0"), good_priv("zz"), good_priv("é"), "{}".to_string(), String::new(), "{\"name\":\"x\"}".to_string(), "[".to_string(), good_priv("00ff") + "x"] {
        v.push(format!("udpriv {} {} x", hx("123"), hx(&c)));
        v.push(format!("udprivs {}", hx(&c)));
    }
    v.push(format!("udpriv {} fffe x", hx("123")));
    v.push("udprivs".into());
    v.push(format!("udprivs {} {}", hx(&good_priv("00")), hx(&good_priv("0"))));
    for kind in ["userdata", "pubarchive", "privarchive", "nodeevent"] {
        for b in ["-", "c0", "90", "80", "91", "92", "9290", "928080", "9280", "dc", "ff", "81a1", "c1", "9291c0c0"] {
            v.push(format!("mpdec {kind} {b} x"));
        }
        if kind != "nodeevent" {
            for k in [0u64, 1, 2, 7] {
                v.push(format!("mprt {kind} {k} {}", 1 + k));
            }
        }
    }
    for _ in 0..n / 3 {
        match rng.below(10) {
            0 => {
                let base = if rng.chance(1, 2) { valid_sk_hex(rng) } else { hex::encode(rng.bytes(32)) };
                let s = if rng.chance(1, 2) { mutate(rng, &base) } else { base };
                if !s.contains('\0') {
                    v.push(format!("regkey {} {} x", rng.pick(&["env", "file"]), hx(&s)));
                }
            }
            1 => {
                let k = rng.below(4);
                let mut names: Vec<String> = vec![];
                for _ in 0..k {
                    let good = format!("{}{}", hex::encode(rng.bytes(32)), valid_pk_hex(rng));
                    let nm = match rng.below(5) {
                        0 => mutate(rng, &good),
                        1 => rng.pick(&[".DS_Store", "notes.txt", "x"]).to_string(),
                        2 => good.to_uppercase(),
                        _ => good,
                    };
                    if valid_file_name(nm.as_bytes()) && !names.contains(&nm) {
                        names.push(nm);
                    }
                }
                v.push(format!("udreg {} x", if names.is_empty() { "-".to_string() } else { names.iter().map(|s| hx(s)).collect::<Vec<_>>().join(" ") }).replace("udreg - x", "udreg -"));
            }
            2 => {
                let k = rng.below(4);
                let mut names: Vec<String> = vec![];
                for _ in 0..k {
                    let good = hex::encode(rng.bytes(32));
                    let nm = match rng.below(5) {
                        0 => mutate(rng, &good),
                        1 => rng.pick(&[".DS_Store", "notes.txt", "x"]).to_string(),
                        2 => good.to_uppercase(),
                        _ => good,
                    };
                    if valid_file_name(nm.as_bytes()) && !names.contains(&nm) {
                        names.push(nm);
                    }
                }
                v.push(format!("udpub {}", names.iter().map(|s| hx(s)).collect::<Vec<_>>().join(" ")).trim_end().to_string());
            }
            3 => {
                let l = rng.below(20) as usize;
                let sa = hex::encode(rng.bytes(l));
                let mut c = good_priv(&sa);
                if rng.chance(1, 2) {
                    c = mutate(rng, &c);
                }
                if rng.chance(1, 2) {
                    v.push(format!("udpriv {} {} x", hx(&rng.below(1000).to_string()), hx(&c)));
                } else {
                    v.push(format!("udprivs {} {}", hx(&c), hx(&good_priv("ab"))));
                }
            }
            4 => {
                let k = hex::encode(rng.bytes(32));
                let c = match rng.below(5) {
                    0 => k,
                    1 => format!("0x{k}"),
                    2 => mutate(rng, &k),
                    3 => { let l = rng.below(8) as usize; String::from_utf8_lossy(&rng.bytes(l)).to_string() }
                    _ => k.to_uppercase(),
                };
                v.push(format!("walletexport plain {} x", hx(&c)));
            }
            5 | 6 => {
                let d = if rng.chance(1, 2) { rng.pick(PATHS).to_string() } else { mutate(rng, "a/b/c") };
                let f = match rng.below(4) {
                    0 => format!("{d}/x.bin"),
                    1 => format!("{d}/s/t/x.bin"),
                    2 => format!("{d}/./é/../x"),
                    _ => d.clone(),
                };
                if !d.contains('\0') && !f.contains('\0') {
                    v.push(format!("relpath {} {} dir x x", hx(&f), hx(&d)));
                }
            }
            7 | 8 => {
                let kind = *rng.pick(&["userdata", "pubarchive", "privarchive", "nodeevent"]);
                if kind != "nodeevent" && rng.chance(1, 3) {
                    v.push(format!("mprt {kind} {} {}", rng.below(6), rng.below(1 << 30)));
                } else {
                    // truncations / byte flips of a valid encoding, and short random msgpack
                    let mut b = if kind != "nodeevent" { archive_value(kind, rng.below(3), rng.below(1000)).and_then(|r| r.ok()).map(|x| x.0).unwrap_or_default() } else { let l = rng.below(12) as usize; rng.bytes(l) };
                    match rng.below(4) {
                        0 => b.truncate(rng.below(b.len() as u64 + 1) as usize),
                        1 if !b.is_empty() => { let i = rng.below(b.len() as u64) as usize; b[i] = *rng.pick(&[0u8, 0xff, 0xc1, 0x90, 0xdc, 0xdf, 0xc6]); }
                        2 => { let l = rng.below(6) as usize; b = rng.bytes(l); }
                        _ => {}
                    }
                    v.push(format!("mpdec {kind} {} x", hex(&b)));
                }
            }
            _ => {
                let d = format!("{}.bin", rng.pick(&["f", "a/f", "a/b/f", "é"]));
                v.push(format!("relpath - {} file x x", hx(&d)));
            }
        }
    }
    v
}
