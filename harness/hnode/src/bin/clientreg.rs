//! C06 (client write path): autonomi's client-side `Register` = (SignedRegister, RegisterCrdt). `write_atop` is the only
//! production caller of `SignedRegister::add_op`; `values()` reads the CRDT half, `register_create` / `register_update`
//! upload the signed half. The two halves must present the same register.
//! Op lines (inputs only; ids are small integers, an entry's bytes carry its id):
//!   cnew <c> <name> <owner> <initid> <initlen> anyone | writers <k…>   Register::new (initid 0 = no initial value)
//!   cwrite <c> <key> <id> <len>                                         Register::write_atop(entry, key)
//!   cfill <c> <key> <firstid> <n> <len>                                 n writes, prints the number accepted
//!   cvalues <c>      values() (the CRDT half)            -> values <ids…>
//!   cstored <c>      values of a RegisterCrdt rebuilt from signed_reg.ops(), as register_get does after a fetch
//!   cops <c>         the signed half: count and id-sum of its ops
//!   cverify <c>      signed_reg.verify()
//!   reset
use ant_registers::{RegisterCrdt, SignedRegister};
use autonomi::client::registers::{Register, RegisterError, RegisterPermissions, RegisterSecretKey};
use bytes::Bytes;
use common::{Out, Rng};
use std::collections::{BTreeMap, BTreeSet};
use std::panic::{catch_unwind, AssertUnwindSafe};
use xor_name::XorName;

fn key(i: u64) -> RegisterSecretKey {
    let mut b = [0u8; 32];
    b[31] = i as u8;
    b[30] = 0x5a;
    b[1] = 0x17;
    RegisterSecretKey::from_bytes(b).expect("sk")
}

fn entry(id: u64, len: usize) -> Vec<u8> {
    let mut v = id.to_be_bytes().to_vec();
    v.resize(len.max(8), 0xab);
    v
}
fn entry_id(v: &[u8]) -> u64 {
    let mut b = [0u8; 8];
    b.copy_from_slice(&v[..8]);
    u64::from_be_bytes(b)
}

fn err_class(e: &RegisterError) -> String {
    use ant_registers::Error::*;
    match e {
        RegisterError::Write(TooManyEntries(n)) => format!("err toomany {n}"),
        RegisterError::Write(InvalidSignature) => "err invalidsig".into(),
        RegisterError::Write(AccessDenied(_)) => "err accessdenied".into(),
        RegisterError::Write(EntryTooBig { .. }) => "err toobig".into(),
        RegisterError::Write(RegisterAddrMismatch { .. }) => "err addrmismatch".into(),
        other => format!("err other:{other:?}"),
    }
}

fn ids(vals: impl IntoIterator<Item = Vec<u8>>) -> Vec<u64> {
    let mut v: Vec<u64> = vals.into_iter().map(|b| entry_id(&b)).collect();
    v.sort();
    v
}
fn tag(t: &str, v: &[u64]) -> String {
    let mut s = t.to_string();
    for i in v {
        s.push_str(&format!(" {i}"));
    }
    s
}

/// what a client that fetched the signed half would show: every op of `signed_reg.ops()` applied to a fresh CRDT
fn stored_values(s: &SignedRegister) -> Result<Vec<u64>, String> {
    let mut c = RegisterCrdt::new(*s.address());
    for op in s.ops() {
        c.apply_op(op.clone()).map_err(|e| format!("{e:?}"))?;
    }
    Ok(ids(c.read().into_iter().map(|(_, e)| e)))
}
fn signed_ids(s: &SignedRegister) -> Vec<u64> {
    let mut v = vec![];
    for op in s.ops() {
        let j = serde_json::to_value(op).expect("json");
        let val: Vec<u8> = serde_json::from_value(j["crdt_op"]["value"].clone()).expect("value");
        v.push(entry_id(&val));
    }
    v.sort();
    v
}

#[derive(Default)]
struct World {
    regs: BTreeMap<u64, Register>,
    alarms: Vec<(String, String)>,
}

impl World {
    /// clauses that must hold after every step, stated on the real pair only
    fn check_pair(&mut self, c: u64, line: &str) {
        let Some(r) = self.regs.get(&c) else { return };
        let shown = ids(r.values().into_iter().map(|b| b.to_vec()));
        match stored_values(r.verif_signed()) {
            Ok(stored) if stored == shown => {}
            Ok(stored) => self.alarms.push((
                "client-views-agree".into(),
                format!("after `{line}`: values() shows {shown:?} but the signed register that is uploaded presents {stored:?}"),
            )),
            Err(e) => self.alarms.push(("client-views-agree".into(), format!("after `{line}`: signed ops do not apply: {e}"))),
        }
        if let Err(e) = r.verif_signed().verify() {
            self.alarms.push(("client-state-verifies".into(), format!("after `{line}`: the signed register fails verify(): {e:?}")));
        }
    }

    fn write(&mut self, c: u64, k: u64, id: u64, len: usize, line: &str) -> String {
        let Some(r) = self.regs.get_mut(&c) else { return "bad-op".into() };
        let before_vals = ids(r.values().into_iter().map(|b| b.to_vec()));
        let before_ops = signed_ids(r.verif_signed());
        let res = r.verif_write_atop(&entry(id, len), &key(k));
        let after_vals = ids(r.values().into_iter().map(|b| b.to_vec()));
        let after_ops = signed_ids(r.verif_signed());
        match res {
            Ok(()) => {
                if !after_ops.contains(&id) {
                    self.alarms.push((
                        "accepted-write-is-held".into(),
                        format!("`{line}` returned Ok but the signed register (what is uploaded and paid for) does not hold entry {id}; values() shows {after_vals:?}"),
                    ));
                }
                "ok".into()
            }
            Err(e) => {
                if after_vals != before_vals || after_ops != before_ops {
                    self.alarms.push((
                        "rejected-write-changes-nothing".into(),
                        format!("`{line}` was refused ({e:?}) but values() went {before_vals:?} -> {after_vals:?}, signed ops {} -> {}", before_ops.len(), after_ops.len()),
                    ));
                }
                err_class(&e)
            }
        }
    }

    fn exec(&mut self, line: &str) -> String {
        let ws: Vec<&str> = line.split_whitespace().collect();
        let n = |s: &str| s.parse::<u64>().ok();
        match ws.as_slice() {
            ["reset"] => {
                self.regs.clear();
                "ok".into()
            }
            ["cnew", c, name, owner, initid, initlen, perms @ ..] => {
                let (Some(c), Some(name), Some(owner), Some(initid), Some(initlen)) = (n(c), n(name), n(owner), n(initid), n(initlen)) else {
                    return "bad-op".into();
                };
                let permissions = match perms {
                    ["anyone"] => RegisterPermissions::new_anyone_can_write(),
                    ["writers", ks @ ..] => {
                        let mut v = vec![];
                        for k in ks {
                            let Some(k) = n(k) else { return "bad-op".into() };
                            v.push(key(k).public_key());
                        }
                        RegisterPermissions::new_with(v)
                    }
                    _ => return "bad-op".into(),
                };
                let init = if initid == 0 { None } else { Some(Bytes::from(entry(initid, initlen as usize))) };
                match Register::verif_new(init, XorName::from_content(&name.to_be_bytes()), key(owner), permissions) {
                    Ok(r) => {
                        if initid != 0 && !signed_ids(r.verif_signed()).contains(&initid) {
                            self.alarms.push((
                                "accepted-write-is-held".into(),
                                format!("`{line}` returned Ok but the signed register does not hold the initial entry {initid}"),
                            ));
                        }
                        self.regs.insert(c, r);
                        self.check_pair(c, line);
                        "ok".into()
                    }
                    Err(e) => err_class(&e),
                }
            }
            ["cwrite", c, k, id, len] => {
                let (Some(c), Some(k), Some(id), Some(len)) = (n(c), n(k), n(id), n(len)) else { return "bad-op".into() };
                let r = self.write(c, k, id, len as usize, line);
                self.check_pair(c, line);
                r
            }
            ["cfill", c, k, first, cnt, len] => {
                let (Some(c), Some(k), Some(first), Some(cnt), Some(len)) = (n(c), n(k), n(first), n(cnt), n(len)) else {
                    return "bad-op".into();
                };
                if !self.regs.contains_key(&c) {
                    return "bad-op".into();
                }
                let mut acc = 0;
                for i in 0..cnt {
                    if self.write(c, k, first + i, len as usize, line) == "ok" {
                        acc += 1;
                    }
                }
                self.check_pair(c, line);
                format!("ok {acc}")
            }
            ["cvalues", c] => match n(c).and_then(|c| self.regs.get(&c)) {
                Some(r) => tag("values", &ids(r.values().into_iter().map(|b| b.to_vec()))),
                None => "bad-op".into(),
            },
            ["cstored", c] => match n(c).and_then(|c| self.regs.get(&c)) {
                Some(r) => match stored_values(r.verif_signed()) {
                    Ok(v) => tag("values", &v),
                    Err(e) => format!("err {e}"),
                },
                None => "bad-op".into(),
            },
            ["cops", c] => match n(c).and_then(|c| self.regs.get(&c)) {
                Some(r) => {
                    let v = signed_ids(r.verif_signed());
                    // the CRDT half holds the same entries (dag + orphans)
                    format!("ops {} {} crdt {}", v.len(), v.iter().sum::<u64>(), r.verif_crdt().size())
                }
                None => "bad-op".into(),
            },
            ["cverify", c] => match n(c).and_then(|c| self.regs.get(&c)) {
                Some(r) => match r.verif_signed().verify() {
                    Ok(()) => "ok".into(),
                    Err(ant_registers::Error::TooManyEntries(k)) => format!("err toomany {k}"),
                    Err(_) => "err op".into(),
                },
                None => "bad-op".into(),
            },
            _ => "bad-op".into(),
        }
    }
}

fn perms(rng: &mut Rng) -> String {
    match rng.below(4) {
        0 => "anyone".into(),
        1 => "writers 1".into(),
        2 => "writers 1 2".into(),
        _ => "writers 2".into(), // the owner (key 1) is not a writer of its own register
    }
}

fn episode(rng: &mut Rng, next_id: &mut u64, big: bool) -> Vec<String> {
    let mut v = vec![];
    let mut fresh = |k: u64| {
        let i = *next_id;
        *next_id += k;
        i
    };
    let c = 1;
    let p = perms(rng);
    let (initid, initlen) = match rng.below(4) {
        0 => (0, 0),
        1 => (fresh(1), 1025 + rng.below(100)), // oversized initial value
        _ => (fresh(1), 8 + rng.below(200)),
    };
    v.push(format!("cnew {c} {} 1 {initid} {initlen} {p}", rng.below(5)));
    if big {
        // towards and across the entry cap through the client path
        let n = *rng.pick(&[1020u64, 1023, 1024, 1030]);
        v.push(format!("cfill {c} {} {} {n} 16", if p == "writers 2" { 2 } else { 1 }, fresh(n)));
    }
    let steps = 2 + rng.below(7);
    for _ in 0..steps {
        match rng.below(10) {
            0..=3 => v.push(format!("cwrite {c} 1 {} {}", fresh(1), 8 + rng.below(1017))),
            4 => v.push(format!("cwrite {c} {} {} {}", 2 + rng.below(2), fresh(1), 8 + rng.below(100))), // another signer
            5 => v.push(format!("cwrite {c} {} {} {}", 1 + rng.below(2), fresh(1), *rng.pick(&[1024u64, 1025, 1026, 4000]))),
            6 => v.push(format!("cvalues {c}")),
            7 => v.push(format!("cstored {c}")),
            8 => v.push(format!("cops {c}")),
            _ => v.push(format!("cverify {c}")),
        }
    }
    v.push(format!("cvalues {c}"));
    v.push(format!("cstored {c}"));
    v.push(format!("cops {c}"));
    v.push(format!("cverify {c}"));
    v.push("reset".into());
    v
}

fn main() {
    let args = common::parse_args();
    let mut out = Out::new(&args.out);
    std::panic::set_hook(Box::new(|_| {}));
    let lines: Vec<String> = if let Some(p) = &args.replay {
        common::read_lines(p)
    } else {
        let mut rng = Rng::new(args.seed);
        let mut next_id = 1u64;
        let mut v: Vec<String> = vec![];
        // corpus: the three ways add_op refuses what write_atop offers
        for l in [
            "cnew 1 1 1 0 0 writers 1", "cwrite 1 1 1 16", "cwrite 1 2 2 16", "cvalues 1", "cstored 1", "cops 1", "reset",
            "cnew 1 1 1 0 0 anyone", "cwrite 1 1 3 2000", "cvalues 1", "cstored 1", "cops 1", "reset",
            "cnew 1 1 1 4 1500 anyone", "reset",
            "cnew 1 1 1 0 0 writers 2", "cwrite 1 1 5 16", "cvalues 1", "cstored 1", "reset",
        ] {
            v.push(l.to_string());
        }
        next_id = next_id.max(10);
        let mut ep = 0u64;
        while (v.len() as u64) < args.n {
            ep += 1;
            let big = ep % 25 == 3;
            v.extend(episode(&mut rng, &mut next_id, big));
        }
        v
    };
    let mut w = World::default();
    let mut hist: Vec<String> = vec![];
    for l in &lines {
        let r = catch_unwind(AssertUnwindSafe(|| w.exec(l))).unwrap_or_else(|_| "panic".into());
        hist.push(l.clone());
        if r == "panic" {
            out.oracle_fail("no-panic", &hist.join(" ; "), "implementation panicked");
        }
        for (clause, what) in std::mem::take(&mut w.alarms) {
            out.oracle_fail(&clause, &hist.join(" ; "), &what);
        }
        let op = l.split_whitespace().next().unwrap_or("");
        let class = if r.starts_with("err") { r.split_whitespace().take(2).collect::<Vec<_>>().join(" ") } else { "ok".into() };
        out.count(&format!("{op}:{class}"));
        out.nontrivial_case(&format!("{}:{l}", hist.len()));
        if l == "reset" {
            hist.clear();
        }
        out.line(l.clone(), r);
    }
    let _: BTreeSet<u64> = BTreeSet::new();
    out.finish();
}
