//! 2-3 real nodes wired in-process. Per node: a real `SwarmDriver` from `NetworkBuilder::build_node` (never run;
//! its two command channels are polled through the `driver` hook and every command is handed to the real
//! `handle_local_cmd` / (for `SendResponse`) `handle_network_cmd` — so the record store, the replication fetcher and `try_interval_replication` are the real
//! ones), the `Network` handle that `build_node` returned, and a real `Node` (`VerifNode`) over that handle.
//! The harness is the transport: `NetworkSwarmCmd::SendRequest` becomes a wire message that an op line later
//! delivers, duplicates or drops.
use crate::world::*;
use ant_evm::{EvmNetwork, RewardsAddress};
use ant_networking::verif::{driver as dhook, event as hook, LocalSwarmCmd, NetworkSwarmCmd};
use ant_networking::{GetRecordError, Network, NetworkBuilder, NetworkError, NetworkEvent, SwarmDriver};
use ant_node::verif::node::VerifNode;
use ant_protocol::messages::{Cmd, Query, QueryResponse, Request, Response};
use ant_protocol::storage::RecordType;
use ant_protocol::NetworkAddress;
use libp2p::kad::RecordKey;
use libp2p::request_response::OutboundFailure;
use libp2p::{Multiaddr, PeerId};
use std::collections::{BTreeMap, HashMap};
use std::time::{Duration, Instant};
use tokio::sync::{mpsc, oneshot};

pub struct NodeSim {
    pub id: u64,
    pub peer: PeerId,
    pub driver: SwarmDriver,
    pub network: Network,
    pub events: mpsc::Receiver<NetworkEvent>,
    pub node: VerifNode,
    _dir: tempfile::TempDir,
}

pub enum Msg {
    /// `Request::Cmd(Cmd::Replicate { holder, keys })` sent by `from` to `to`
    Rep { from: u64, to: u64, holder: NetworkAddress, keys: Vec<(NetworkAddress, RecordType)> },
    /// `Request::Query(Query::GetReplicatedRecord { requester, key })` sent by `from` to `to`; `reply` is the
    /// oneshot the requesting task awaits
    Get { from: u64, to: u64, requester: NetworkAddress, key: NetworkAddress, reply: Option<oneshot::Sender<Result<Response, NetworkError>>> },
    /// the holder's `Response` on its way back to `to`
    Rsp { from: u64, to: u64, key: NetworkAddress, response: Response, reply: Option<oneshot::Sender<Result<Response, NetworkError>>> },
}

/// what one pump observed (canonical tokens)
#[derive(Default)]
pub struct StepLog {
    /// `W<key>=<content>`: PutLocalRecord commands handled
    pub writes: Vec<String>,
    /// scheduled (holder, key) pairs of each `KeysToFetchForReplication` event, in event order
    pub sched: Vec<Vec<(PeerId, RecordKey)>>,
    /// per batch of `sched`: it was emitted while a `FetchCompleted` command was handled that followed a
    /// `PutLocalRecord` in the same pump (the second `next_keys_to_fetch` run a stored reply causes)
    pub sched_after_put: Vec<bool>,
    /// per batch of `sched`: the record type of each pair, read from the in-flight queue right after the command that
    /// emitted the batch (a later command of the same pump may already have removed the entry again)
    pub sched_types: Vec<Vec<Option<RecordType>>>,
    /// `(key, type)` of each `FetchCompleted` command handled
    pub completed: Vec<(RecordKey, RecordType)>,
    /// holders reported by `FailedToFetchHolders`
    pub failed: Vec<PeerId>,
    /// (target, keys) of each `Cmd::Replicate` sent, in send order
    pub reps: Vec<(PeerId, Vec<(NetworkAddress, RecordType)>)>,
    /// ids of wire messages created
    pub new_msgs: Vec<u64>,
    /// `N<key>`: fallback `GetNetworkRecord` answered with RecordNotFound
    pub netgets: Vec<String>,
    pub other: Vec<String>,
}

pub struct Sim {
    pub rt: tokio::runtime::Runtime,
    pub nodes: Vec<NodeSim>,
    pub wire: BTreeMap<u64, Msg>,
    pub next_id: u64,
    pub peer_ids: HashMap<PeerId, u64>,
    pub key_ids: HashMap<Vec<u8>, u64>,
    pub book: HashBook,
    pub started: Instant,
}

fn new_rt() -> tokio::runtime::Runtime {
    tokio::runtime::Builder::new_current_thread().enable_all().build().expect("runtime")
}

pub fn dummy_addr(i: u64) -> Multiaddr {
    format!("/ip4/10.{}.{}.{}/udp/{}/quic-v1", (i >> 16) & 0xff, (i >> 8) & 0xff, i & 0xff, 12000 + (i % 1000))
        .parse()
        .expect("multiaddr")
}

impl Sim {
    pub fn new(n_nodes: u64, peer_ids: HashMap<PeerId, u64>) -> Sim {
        let rt = new_rt();
        let mut nodes = vec![];
        {
            let _g = rt.enter();
            for i in 0..n_nodes {
                let dir = tempfile::tempdir().expect("tempdir");
                let mut b = NetworkBuilder::new(peer_keypair(i), true);
                b.listen_addr("127.0.0.1:0".parse().expect("addr"));
                let (network, events, driver) = b.build_node(dir.path().to_path_buf()).expect("build_node");
                let evm = EvmNetwork::new_custom(
                    "http://127.0.0.1:1/",
                    "0x5FbDB2315678afecb367f032d93F642f64180aa3",
                    "0x8464135c8F25Da09e49BC8782676a84730C318bC",
                );
                let node = VerifNode::new(network.clone(), evm, RewardsAddress::from([0x11u8; 20]));
                nodes.push(NodeSim { id: i, peer: peer_id(i), driver, network, events, node, _dir: dir });
            }
        }
        let mut key_ids = HashMap::new();
        for k in 0..MAX_KEY {
            key_ids.insert(record_key(k).to_vec(), k);
        }
        Sim { rt, nodes, wire: BTreeMap::new(), next_id: 1, peer_ids, key_ids, book: HashBook::default(), started: Instant::now() }
    }

    pub fn shutdown(self) {
        let Sim { rt, nodes, wire, .. } = self;
        drop(wire);
        {
            let _g = rt.enter();
            drop(nodes);
        }
        rt.shutdown_background();
    }

    pub fn pid(&self, p: &PeerId) -> String {
        self.peer_ids.get(p).map(|i| i.to_string()).unwrap_or_else(|| "?".into())
    }
    pub fn kid(&self, k: &RecordKey) -> String {
        self.key_ids.get(&k.to_vec()).map(|i| i.to_string()).unwrap_or_else(|| "?".into())
    }
    pub fn kid_addr(&self, a: &NetworkAddress) -> String {
        self.kid(&a.to_record_key())
    }

    /// Play node `i`'s run loop until nothing moves: every queued `LocalSwarmCmd` goes to the real
    /// `handle_local_cmd`; `NetworkSwarmCmd::SendRequest` goes on the wire; `NetworkEvent`s are handled the way
    /// `Node::handle_network_event` does for the two replication events.
    pub fn pump(&mut self, i: usize) -> StepLog {
        let mut log = StepLog::default();
        let Sim { rt, nodes, wire, next_id, peer_ids, key_ids, book, .. } = self;
        let n_nodes = nodes.len() as u64;
        let n = &mut nodes[i];
        rt.block_on(async {
            let mut idle = 0;
            let mut saw_put = false;
            while idle < 6 {
                for _ in 0..4 {
                    tokio::task::yield_now().await;
                }
                let mut moved = false;
                while let Some(cmd) = dhook::try_recv_local_cmd(&mut n.driver) {
                    moved = true;
                    let mut is_done = false;
                    if let LocalSwarmCmd::FetchCompleted((k, t)) = &cmd {
                        is_done = true;
                        log.completed.push((k.clone(), t.clone()));
                    }
                    if let LocalSwarmCmd::PutLocalRecord { record } = &cmd {
                        saw_put = true;
                        let k = key_ids.get(&record.key.to_vec()).copied();
                        match k {
                            Some(k) => {
                                book.learn(k, &record.value);
                                log.writes.push(format!("W{k}={}", describe(k, &record.value)));
                            }
                            None => log.writes.push("W?".into()),
                        }
                    }
                    // the in-flight set before the command, deadlines included: what a batch scheduled is what is in
                    // flight afterwards and was not before (one key can be in flight under two record types from one
                    // holder, so a look-up by (key, holder) cannot tell which of the two a returned pair stands for)
                    let (_tbf0, mut ogf_prev) = hook::replication_fetcher_queues(&n.driver);
                    if let Err(e) = hook::handle_local_cmd(&mut n.driver, cmd) {
                        log.other.push(format!("localerr:{}", short_err(&e)));
                    }
                    // the events this command emitted (so that a batch can be attributed to its handler)
                    for _ in 0..4 {
                        tokio::task::yield_now().await;
                    }
                    while let Ok(ev) = n.events.try_recv() {
                        match ev {
                            NetworkEvent::KeysToFetchForReplication(keys) => {
                                log.sched.push(keys.clone());
                                log.sched_after_put.push(is_done && saw_put);
                                let (_tbf, ogf) = hook::replication_fetcher_queues(&n.driver);
                                let mut added: Vec<_> = ogf.iter().filter(|e| !ogf_prev.contains(e)).cloned().collect();
                                log.sched_types.push(
                                    keys.iter()
                                        .map(|(h, k)| {
                                            // an entry that entered the in-flight set with this command, each used once
                                            match added.iter().position(|(ok, _, oh, _)| ok == k && oh == h) {
                                                Some(p) => Some(added.remove(p).1),
                                                None => ogf.iter().find(|(ok, _, oh, _)| ok == k && oh == h).map(|(_, t, _, _)| t.clone()),
                                            }
                                        })
                                        .collect(),
                                );
                                ogf_prev = ogf;
                                n.node.handle_network_event(NetworkEvent::KeysToFetchForReplication(keys));
                            }
                            NetworkEvent::FailedToFetchHolders(set) => log.failed.extend(set),
                            other => log.other.push(format!("?ev:{}", first_word(&format!("{other:?}")))),
                        }
                    }
                }
                while let Some(cmd) = dhook::try_recv_network_cmd(&mut n.driver) {
                    moved = true;
                    match cmd {
                        NetworkSwarmCmd::SendRequest { req: Request::Cmd(Cmd::Replicate { holder, keys }), peer, sender } => {
                            drop(sender);
                            log.reps.push((peer, keys.clone()));
                            if let Some(to) = peer_ids.get(&peer).copied().filter(|t| *t < n_nodes) {
                                let id = *next_id;
                                *next_id += 1;
                                wire.insert(id, Msg::Rep { from: n.id, to, holder, keys });
                                log.new_msgs.push(id);
                            }
                        }
                        NetworkSwarmCmd::SendRequest { req: Request::Query(Query::GetReplicatedRecord { requester, key }), peer, sender } => {
                            let to = peer_ids.get(&peer).copied().unwrap_or(9999);
                            let id = *next_id;
                            *next_id += 1;
                            wire.insert(id, Msg::Get { from: n.id, to, requester, key, reply: sender });
                            log.new_msgs.push(id);
                        }
                        NetworkSwarmCmd::GetNetworkRecord { key, sender, .. } => {
                            let k = key_ids.get(&key.to_vec()).map(|k| k.to_string()).unwrap_or_else(|| "?".into());
                            log.netgets.push(format!("N{k}"));
                            let _ = sender.send(Err(GetRecordError::RecordNotFound));
                        }
                        cmd @ NetworkSwarmCmd::SendResponse { .. } => {
                            // the real `handle_network_cmd`: a `MsgResponder::FromSelf` response goes through its oneshot
                            if let Err(e) = hook::handle_network_cmd(&mut n.driver, cmd) {
                                log.other.push(format!("neterr:{}", short_err(&e)));
                            }
                        }
                        other => log.other.push(format!("?net:{}", first_word(&format!("{other:?}")))),
                    }
                }
                while let Ok(ev) = n.events.try_recv() {
                    moved = true;
                    match ev {
                        NetworkEvent::KeysToFetchForReplication(keys) => {
                            log.sched.push(keys.clone());
                            log.sched_after_put.push(false);
                            log.sched_types.push(vec![None; keys.len()]);
                            // the real `Node::handle_network_event` (arm `KeysToFetchForReplication`)
                            n.node.handle_network_event(NetworkEvent::KeysToFetchForReplication(keys));
                        }
                        NetworkEvent::FailedToFetchHolders(set) => log.failed.extend(set),
                        other => log.other.push(format!("?ev:{}", first_word(&format!("{other:?}")))),
                    }
                }
                if moved {
                    idle = 0;
                } else {
                    idle += 1;
                }
            }
        });
        log
    }
}

fn first_word(s: &str) -> String {
    s.chars().take_while(|c| c.is_alphanumeric()).collect()
}

pub fn short_err(e: &NetworkError) -> String {
    first_word(&format!("{e:?}"))
}

pub fn timeout_error() -> NetworkError {
    NetworkError::OutboundError(OutboundFailure::Timeout)
}

pub fn get_response_content(r: &Response) -> Option<Vec<u8>> {
    match r {
        Response::Query(QueryResponse::GetReplicatedRecord(Ok((_h, bytes)))) => Some(bytes.to_vec()),
        _ => None,
    }
}

pub const AGE_UNIT: Duration = Duration::from_secs(1);
