//! The concrete universe behind the small integers of the C09 op lines: node / stranger peer ids (ed25519),
//! owners (BLS), record builders and the inverse (describe a record held by a node in the token syntax).
//! Key number = 3*id + space (0 chunk, 1 owner: scratchpad / transactions, 2 register), as in the validation harness.
//! Content tokens: `C` chunk | `S<n>` scratchpad with counter n | `T1.2` transactions 1 and 2 | `R1.2` register with
//! ops 1 and 2 (owner-write) | `A1.2` same with anyone-can-write permissions.
//! Record-type tokens: `C` | `S` | the content token of a transaction set / register (= NonChunk(hash of its bytes)).
use ant_protocol::storage::{
    try_deserialize_record, try_serialize_record, Chunk, RecordHeader, RecordKind, RecordType, Scratchpad, ScratchpadAddress,
    Transaction,
};
use ant_registers::{Permissions, Register, RegisterAddress, RegisterCrdt, RegisterOp, SignedRegister};
use bytes::Bytes;
use libp2p::identity::Keypair;
use libp2p::kad::{Record, RecordKey};
use libp2p::PeerId;
use num_bigint::BigUint;
use sha2::{Digest as _, Sha256};
use sha3::Sha3_256;
use std::collections::{BTreeSet, HashMap};
use xor_name::XorName;

pub const N_STRANGER_POOL: u64 = 1500;
pub const STRANGER_BASE: u64 = 10;
pub const N_CLOSE_STRANGERS: usize = 24;
pub const MAX_KEY: u64 = 30;

pub fn sha3(bytes: &[u8]) -> [u8; 32] {
    let mut h = Sha3_256::new();
    sha3::Digest::update(&mut h, bytes);
    sha3::Digest::finalize(h).into()
}
pub fn sha256(bytes: &[u8]) -> [u8; 32] {
    let mut h = Sha256::new();
    h.update(bytes);
    h.finalize().into()
}

/// peers 0..9 are nodes, peers >= 10 are strangers (never run, only routing-table entries / forged senders)
pub fn peer_keypair(i: u64) -> Keypair {
    let mut seed = [0u8; 32];
    seed[0] = 0x52;
    seed[29] = (i >> 16) as u8;
    seed[30] = (i >> 8) as u8;
    seed[31] = i as u8;
    seed[1] = 1;
    Keypair::ed25519_from_bytes(seed).expect("ed25519 seed")
}
pub fn peer_id(i: u64) -> PeerId {
    PeerId::from(peer_keypair(i).public())
}

/// kad distance of two byte strings, computed here with sha2 + XOR (independent of libp2p / ant-protocol)
pub fn xor_distance(a: &[u8], b: &[u8]) -> BigUint {
    let (ha, hb) = (sha256(a), sha256(b));
    let x: Vec<u8> = ha.iter().zip(hb.iter()).map(|(p, q)| p ^ q).collect();
    BigUint::from_bytes_be(&x)
}

pub fn bls_sk(i: u64) -> bls::SecretKey {
    let mut b = [0u8; 32];
    b[30] = 0x78;
    b[31] = (i + 1) as u8;
    bls::SecretKey::from_bytes(b).expect("bls sk")
}

pub fn chunk_bytes(id: u64) -> Vec<u8> {
    format!("verif-c09-chunk-content-{id}").into_bytes()
}
pub fn reg_meta(id: u64) -> XorName {
    XorName(sha3(format!("verif-c09-reg-meta-{id}").as_bytes()))
}
pub fn reg_address(id: u64) -> RegisterAddress {
    RegisterAddress::new(reg_meta(id), bls_sk(id).public_key())
}

pub fn key_xorname(key: u64) -> [u8; 32] {
    let id = key / 3;
    match key % 3 {
        0 => sha3(&chunk_bytes(id)),
        1 => sha3(&bls_sk(id).public_key().to_bytes()),
        _ => {
            let mut b = reg_meta(id).0.to_vec();
            b.extend_from_slice(&bls_sk(id).public_key().to_bytes());
            sha3(&b)
        }
    }
}
pub fn record_key(key: u64) -> RecordKey {
    RecordKey::new(&key_xorname(key))
}

// ---------------------------------------------------------------- content tokens

#[derive(Clone, Debug, PartialEq, Eq, PartialOrd, Ord)]
pub enum Content {
    Chunk,
    Pad(u64),
    Txs(Vec<u64>),
    Reg { alt: bool, ops: Vec<u64> },
}

fn ids(s: &str) -> Option<Vec<u64>> {
    if s.is_empty() {
        return Some(vec![]);
    }
    let mut v: Vec<u64> = s.split('.').map(|x| if x.len() <= 2 { x.parse().ok() } else { None }).collect::<Option<Vec<_>>>()?;
    if v.iter().any(|x| *x > 15) {
        return None;
    }
    v.sort();
    v.dedup();
    Some(v)
}

pub fn parse_content(s: &str) -> Option<Content> {
    let (tag, rest) = s.split_at(1.min(s.len()));
    match tag {
        "C" if rest.is_empty() => Some(Content::Chunk),
        "S" => {
            let n: u64 = if rest.len() <= 3 { rest.parse().ok()? } else { return None };
            Some(Content::Pad(n))
        }
        "T" => {
            let v = ids(rest)?;
            if v.is_empty() {
                None
            } else {
                Some(Content::Txs(v))
            }
        }
        "R" => Some(Content::Reg { alt: false, ops: ids(rest)? }),
        "A" => Some(Content::Reg { alt: true, ops: ids(rest)? }),
        _ => None,
    }
}

pub fn dotted(v: &[u64]) -> String {
    v.iter().map(|x| x.to_string()).collect::<Vec<_>>().join(".")
}

pub fn content_token(c: &Content) -> String {
    match c {
        Content::Chunk => "C".into(),
        Content::Pad(n) => format!("S{n}"),
        Content::Txs(v) => format!("T{}", dotted(v)),
        Content::Reg { alt, ops } => format!("{}{}", if *alt { "A" } else { "R" }, dotted(ops)),
    }
}

/// does the content family fit the key space?
pub fn fits(key: u64, c: &Content) -> bool {
    match c {
        Content::Chunk => key % 3 == 0,
        Content::Pad(_) | Content::Txs(_) => key % 3 == 1,
        Content::Reg { .. } => key % 3 == 2,
    }
}

// ---------------------------------------------------------------- builders

#[derive(serde::Serialize)]
struct PadMirror {
    address: ScratchpadAddress,
    data_encoding: u64,
    encrypted_data: Bytes,
    counter: u64,
    signature: Option<bls::Signature>,
}

thread_local! {
    static PADS: std::cell::RefCell<HashMap<(u64, u64), Scratchpad>> = Default::default();
    static TXS: std::cell::RefCell<HashMap<(u64, u64), Transaction>> = Default::default();
    static OPS: std::cell::RefCell<HashMap<(u64, u64), RegisterOp>> = Default::default();
    static BASES: std::cell::RefCell<HashMap<(u64, bool), (Register, bls::Signature)>> = Default::default();
}

pub fn build_pad(owner: u64, n: u64) -> Scratchpad {
    if let Some(p) = PADS.with(|c| c.borrow().get(&(owner, n)).cloned()) {
        return p;
    }
    let p = build_pad_uncached(owner, n);
    PADS.with(|c| c.borrow_mut().insert((owner, n), p.clone()));
    p
}
fn build_pad_uncached(owner: u64, n: u64) -> Scratchpad {
    let sk = bls_sk(owner);
    let data = Bytes::from(format!("verif-c09-pad-{owner}-{n}").into_bytes());
    let mut to_sign = n.to_be_bytes().to_vec();
    to_sign.extend_from_slice(&sha3(&data));
    let m = PadMirror {
        address: ScratchpadAddress::new(sk.public_key()),
        data_encoding: 7,
        encrypted_data: data,
        counter: n,
        signature: Some(sk.sign(&to_sign)),
    };
    let bytes = rmp_serde::to_vec(&m).expect("pad mirror");
    rmp_serde::from_slice(&bytes).expect("pad from mirror")
}

pub fn build_tx(owner: u64, t: u64) -> Transaction {
    if let Some(p) = TXS.with(|c| c.borrow().get(&(owner, t)).cloned()) {
        return p;
    }
    let sk = bls_sk(owner);
    let tx = Transaction::new(sk.public_key(), vec![], [t as u8; 32], vec![], &sk);
    TXS.with(|c| c.borrow_mut().insert((owner, t), tx.clone()));
    tx
}

pub fn op_entry(id: u64) -> Vec<u8> {
    format!("verif-c09-op-{id:02}").into_bytes()
}
pub fn build_op(reg: u64, op: u64) -> RegisterOp {
    if let Some(p) = OPS.with(|c| c.borrow().get(&(reg, op)).cloned()) {
        return p;
    }
    let addr = reg_address(reg);
    let mut crdt = RegisterCrdt::new(addr);
    let (_h, _a, crdt_op) = crdt.write(op_entry(op), &BTreeSet::new()).expect("crdt write");
    let r = RegisterOp::new(addr, crdt_op, &bls_sk(reg));
    OPS.with(|c| c.borrow_mut().insert((reg, op), r.clone()));
    r
}
fn build_base(id: u64, alt: bool) -> (Register, bls::Signature) {
    if let Some(p) = BASES.with(|c| c.borrow().get(&(id, alt)).cloned()) {
        return p;
    }
    let sk = bls_sk(id);
    let perms = if alt { Permissions::new_anyone_can_write() } else { Permissions::new_with([]) };
    let register = Register::new(sk.public_key(), reg_meta(id), perms);
    let bytes = register.bytes().expect("reg bytes");
    let signature = sk.sign(&bytes);
    BASES.with(|c| c.borrow_mut().insert((id, alt), (register.clone(), signature.clone())));
    (register, signature)
}
pub fn build_reg(id: u64, alt: bool, ops: &[u64]) -> SignedRegister {
    let (register, signature) = build_base(id, alt);
    let ops: BTreeSet<RegisterOp> = ops.iter().map(|o| build_op(id, *o)).collect();
    SignedRegister::new(register, signature, ops)
}

fn ser<T: serde::Serialize>(v: &T, kind: RecordKind) -> Vec<u8> {
    try_serialize_record(v, kind).expect("serialize").to_vec()
}

/// The record a node holds at `key` for a content token (built the way the node code serialises it).
pub fn build_value(key: u64, c: &Content) -> Vec<u8> {
    let id = key / 3;
    match c {
        Content::Chunk => ser(&Chunk::new(Bytes::from(chunk_bytes(id))), RecordKind::Chunk),
        Content::Pad(n) => ser(&build_pad(id, *n), RecordKind::Scratchpad),
        Content::Txs(v) => {
            let set: BTreeSet<Transaction> = v.iter().map(|t| build_tx(id, *t)).collect();
            ser(&set.into_iter().collect::<Vec<_>>(), RecordKind::Transaction)
        }
        Content::Reg { alt, ops } => ser(&build_reg(id, *alt, ops), RecordKind::Register),
    }
}

pub fn build_record(key: u64, c: &Content) -> Record {
    Record { key: record_key(key), value: build_value(key, c), publisher: None, expires: None }
}

fn contains_sub(hay: &[u8], needle: &[u8]) -> bool {
    hay.windows(needle.len()).any(|w| w == needle)
}

#[derive(serde::Deserialize)]
struct PadMirrorDe {
    #[allow(dead_code)]
    address: ScratchpadAddress,
    #[allow(dead_code)]
    data_encoding: u64,
    #[allow(dead_code)]
    encrypted_data: Bytes,
    #[allow(dead_code)]
    counter: u64,
    signature: Option<bls::Signature>,
}

/// Describe a record value held at `key` in the token syntax, checking signatures and content with bls / sha3
/// directly (independent of the node code). `?…` = not a well-formed record of this universe.
pub fn describe(key: u64, value: &[u8]) -> String {
    let rec = Record { key: record_key(key), value: value.to_vec(), publisher: None, expires: None };
    let Ok(h) = RecordHeader::from_record(&rec) else { return "?hdr".into() };
    let id = key / 3;
    match h.kind {
        RecordKind::Chunk => match try_deserialize_record::<Chunk>(&rec) {
            Ok(c) if key % 3 == 0 && c.value().as_ref() == chunk_bytes(id).as_slice() => "C".into(),
            Ok(_) => "?chunkbytes".into(),
            Err(_) => "?chunk".into(),
        },
        RecordKind::Scratchpad => match try_deserialize_record::<Scratchpad>(&rec) {
            Ok(p) => {
                let mut to_sign = p.count().to_be_bytes().to_vec();
                to_sign.extend_from_slice(&sha3(p.encrypted_data()));
                let enc = rmp_serde::to_vec(&p).unwrap_or_default();
                let sig = rmp_serde::from_slice::<PadMirrorDe>(&enc).ok().and_then(|m| m.signature);
                let owner_ok = key % 3 == 1 && *p.owner() == bls_sk(id).public_key();
                let sig_ok = sig.map(|s| p.owner().verify(&s, &to_sign)).unwrap_or(false);
                if owner_ok && sig_ok {
                    format!("S{}", p.count())
                } else {
                    "?padsig".into()
                }
            }
            Err(_) => "?pad".into(),
        },
        RecordKind::Transaction => match try_deserialize_record::<Vec<Transaction>>(&rec) {
            Ok(txs) => {
                let mut v = vec![];
                for t in &txs {
                    let ok = key % 3 == 1
                        && t.owner == bls_sk(id).public_key()
                        && t.owner.verify(&t.signature, Transaction::bytes_to_sign(&t.owner, &t.parents, &t.content, &t.outputs));
                    if !ok {
                        return "?txsig".into();
                    }
                    v.push(t.content[0] as u64);
                }
                let mut sorted = v.clone();
                sorted.sort();
                sorted.dedup();
                if sorted != v {
                    return format!("?txorder{}", dotted(&v));
                }
                format!("T{}", dotted(&v))
            }
            Err(_) => "?txs".into(),
        },
        RecordKind::Register => match try_deserialize_record::<SignedRegister>(&rec) {
            Ok(r) => {
                if key % 3 != 2 || *r.address() != reg_address(id) {
                    return "?regaddr".into();
                }
                let alt = r.base_register().permissions().can_anyone_write();
                let mut v: Vec<u64> = vec![];
                for op in r.ops() {
                    let e = rmp_serde::to_vec(op).unwrap_or_default();
                    match (0..16u64).find(|i| contains_sub(&e, &op_entry(*i))) {
                        // independent validity of the op: signed by the register owner over its own bytes
                        Some(i) if build_op(id, i) == *op => v.push(i),
                        Some(_) => return "?regopsig".into(),
                        None => return "?regop".into(),
                    }
                }
                v.sort();
                v.dedup();
                if v.len() != r.ops().len() {
                    return "?regdup".into();
                }
                // independent validity: equal (as a value) to the register this universe builds from those ops
                if build_reg(id, alt, &v) != r {
                    return "?regsig".into();
                }
                format!("{}{}", if alt { "A" } else { "R" }, dotted(&v))
            }
            Err(_) => "?reg".into(),
        },
        other => format!("?kind{other:?}"),
    }
}

/// hash -> (key, content token) for every NonChunk record value seen so far
#[derive(Default)]
pub struct HashBook {
    by_hash: HashMap<[u8; 32], (u64, String)>,
}

impl HashBook {
    pub fn learn(&mut self, key: u64, value: &[u8]) {
        let d = describe(key, value);
        self.by_hash.insert(XorName::from_content(value).0, (key, d));
    }
    pub fn type_token(&self, key: u64, t: &RecordType) -> String {
        match t {
            RecordType::Chunk => "C".into(),
            RecordType::Scratchpad => "S".into(),
            RecordType::NonChunk(h) => match self.by_hash.get(&h.0) {
                Some((k, d)) if *k == key => d.clone(),
                Some((k, d)) => format!("?hashOfKey{k}:{d}"),
                None => "?hash".into(),
            },
        }
    }
}

/// the RecordType an honest holder advertises for a content token at `key`
pub fn record_type_of(key: u64, c: &Content) -> RecordType {
    match c {
        Content::Chunk => RecordType::Chunk,
        Content::Pad(_) => RecordType::Scratchpad,
        _ => RecordType::NonChunk(XorName::from_content(&build_value(key, c))),
    }
}

/// type token of an advertisement entry: `C`, `S`, or a transaction / register content token
pub fn parse_type(key: u64, s: &str) -> Option<RecordType> {
    match s {
        "C" => Some(RecordType::Chunk),
        "S" => Some(RecordType::Scratchpad),
        _ => {
            let c = parse_content(s)?;
            match c {
                Content::Txs(_) | Content::Reg { .. } => Some(record_type_of(key, &c)),
                _ => None,
            }
        }
    }
}
