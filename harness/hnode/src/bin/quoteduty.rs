//! C13 (node side, ant-node/src/quote.rs): the real `Node::create_quote_for_storecost`, `verify_quote_for_storecost`
//! and `quotes_verification` over a `Network` handle whose command channels end in this harness (no swarm driver runs).
//! What `quotes_verification` decides to pass on is read from the `LocalSwarmCmd::QuoteVerification` it sends.
//!
//! Line protocol (inputs only; identities are small integers; `S` = this node):
//!   create <content hex32> <closeRecords> <maxRecords> <paid> <liveTime> <density hex32|N> <size|N> <rewards hex20>
//!       -> `signed=<b> fields=<b> fresh=<b> storecost=<b>`: the created quote verifies for this node's peer id, carries
//!          exactly the given fields and this node's public key, is not expired, and passes verify_quote_for_storecost
//!   duty (<claimed> <pubkey> <signer> <content> <offset ns>)+   one `quotes_verification(network, quotes)` call
//!       claimed: S | P<i> | X<r>      the PeerId the quote is listed under
//!       pubkey:  KS | K<i> | G        the quote's pub_key field (this node's key / key i / undecodable)
//!       signer:  SS | S<i> | G        signature over the quote's own signing bytes by this node / key i, or garbage
//!       content: c<j>                 content address j;   offset: timestamp = base + offset (base = clock at start)
//!       -> `none` (nothing sent) | `fwd=-` (an empty list sent) | `fwd=<i,j,..>` (0-based positions of the quotes passed on)
//!   getquote <kind> <j> <answer> <paid> <live>    `Node::handle_query(Query::GetStoreQuote { key, nonce: None, .. })`, the arm a client's
//!       fetch reaches; the harness plays the swarm driver for `GetLocalQuotingMetrics`
//!       kind:   c chunk | r register | s scratchpad | t transaction | p a peer id | k a raw record key   (address number j)
//!       answer: q (metrics with the given paid / live, record not stored) | e (record already stored) | d (no answer)
//!       -> `exists` | `failed` | `quote content=<own|zero|other> signed=<b> metrics=<b> storecost=<b>`, each followed by
//!          ` peer=<self|other>` (the response's peer_address);  own = the address's XorName, zero = XorName(0…0)
//! Only the expiry test of the node's own quote reads the clock; its age is kept ≥ 10 min away from the one-hour window.
use ant_evm::{PaymentQuote, QuotingMetrics, RewardsAddress};
use ant_networking::verif::{LocalSwarmCmd, NetworkSwarmCmd};
use ant_networking::Network;
use ant_node::verif::node as hook;
use ant_protocol::storage::ChunkAddress;
use ant_protocol::NetworkAddress;
use common::{hex, unhex, Out, Rng};
use libp2p::identity::Keypair;
use libp2p::PeerId;
use std::panic::{catch_unwind, AssertUnwindSafe};
use std::time::{Duration, SystemTime};
use tokio::sync::mpsc;
use xor_name::XorName;

const S: i128 = 1_000_000_000;
const NKEYS: u64 = 4;

fn keypair(i: u64) -> Keypair {
    let mut seed = [0u8; 32];
    seed[0] = 0x73;
    seed[31] = (i + 1) as u8;
    Keypair::ed25519_from_bytes(seed).expect("ed25519 seed")
}
fn self_keypair() -> Keypair {
    let mut seed = [0u8; 32];
    seed[0] = 0x74;
    Keypair::ed25519_from_bytes(seed).expect("ed25519 seed")
}
fn content(j: u64) -> XorName {
    XorName::from_content(format!("verif quoteduty content {j}").as_bytes())
}
fn tag(s: &str, p: &str) -> Option<u64> {
    s.strip_prefix(p)?.parse().ok()
}

struct H {
    rt: tokio::runtime::Runtime,
    network: Network,
    local_rx: mpsc::Receiver<LocalSwarmCmd>,
    _net_rx: mpsc::Receiver<NetworkSwarmCmd>,
    base: SystemTime,
}

fn at(base: SystemTime, off: i128) -> SystemTime {
    if off >= 0 {
        base + Duration::from_nanos(off as u64)
    } else {
        base - Duration::from_nanos((-off) as u64)
    }
}

impl H {
    fn new() -> Self {
        let rt = tokio::runtime::Builder::new_current_thread().enable_all().build().expect("rt");
        let (net_tx, net_rx) = mpsc::channel::<NetworkSwarmCmd>(10_000);
        let (local_tx, local_rx) = mpsc::channel::<LocalSwarmCmd>(10_000);
        let kp = self_keypair();
        let network = Network::new(net_tx, local_tx, PeerId::from(kp.public()), kp);
        H { rt, network, local_rx, _net_rx: net_rx, base: SystemTime::now() }
    }
    fn peer(&self, s: &str) -> Option<PeerId> {
        if s == "S" {
            return Some(self.network.peer_id());
        }
        if let Some(i) = tag(s, "P") {
            return Some(PeerId::from(keypair(i).public()));
        }
        tag(s, "X").map(|r| PeerId::from(keypair(100 + r).public()))
    }
    fn exec(&mut self, line: &str) -> Option<String> {
        let ws: Vec<&str> = line.split_whitespace().collect();
        match ws[0] {
            "create" if ws.len() == 9 => {
                let c: [u8; 32] = unhex(ws[1])?.try_into().ok()?;
                let metrics = QuotingMetrics {
                    close_records_stored: ws[2].parse().ok()?,
                    max_records: ws[3].parse().ok()?,
                    received_payment_count: ws[4].parse().ok()?,
                    live_time: ws[5].parse().ok()?,
                    network_density: if ws[6] == "N" { None } else { Some(unhex(ws[6])?.try_into().ok()?) },
                    network_size: if ws[7] == "N" { None } else { Some(ws[7].parse().ok()?) },
                };
                let r: [u8; 20] = unhex(ws[8])?.try_into().ok()?;
                let rewards = RewardsAddress::from(r);
                let addr = NetworkAddress::from_chunk_address(ChunkAddress::new(XorName(c)));
                let q = match hook::create_quote_for_storecost(&self.network, &addr, &metrics, &rewards) {
                    Ok(q) => q,
                    Err(_) => return Some("err".into()),
                };
                let signed = q.check_is_signed_by_claimed_peer(self.network.peer_id());
                let fields = q.content == XorName(c) && q.quoting_metrics == metrics && q.rewards_address == rewards && q.pub_key == self.network.get_pub_key();
                let fresh = !q.has_expired();
                let storecost = hook::verify_quote_for_storecost(&self.network, q, &addr);
                Some(format!("signed={signed} fields={fields} fresh={fresh} storecost={storecost}"))
            }
            "getquote" if ws.len() == 6 => {
                let j: u64 = ws[2].parse().ok()?;
                let name = content(j);
                let bls_pk = {
                    let mut b = [0u8; 32];
                    b[31] = (j % 200) as u8 + 1;
                    b[0] = 0x21;
                    bls::SecretKey::from_bytes(b).ok()?.public_key()
                };
                let (addr, own): (NetworkAddress, Option<XorName>) = match ws[1] {
                    "c" => (NetworkAddress::from_chunk_address(ChunkAddress::new(name)), Some(name)),
                    "r" => {
                        let a = ant_registers::RegisterAddress::new(name, bls_pk);
                        (NetworkAddress::from_register_address(a), Some(a.xorname()))
                    }
                    "s" => {
                        let a = ant_protocol::storage::ScratchpadAddress::new(bls_pk);
                        (NetworkAddress::from_scratchpad_address(a), Some(a.xorname()))
                    }
                    "t" => {
                        let a = ant_protocol::storage::TransactionAddress::new(name);
                        (NetworkAddress::from_transaction_address(a), Some(*a.xorname()))
                    }
                    "p" => (NetworkAddress::from_peer(PeerId::from(keypair(j % NKEYS).public())), None),
                    "k" => (NetworkAddress::from_record_key(&NetworkAddress::from_chunk_address(ChunkAddress::new(name)).to_record_key()), None),
                    _ => return None,
                };
                let metrics = QuotingMetrics {
                    close_records_stored: 3,
                    max_records: 16384,
                    received_payment_count: ws[4].parse().ok()?,
                    live_time: ws[5].parse().ok()?,
                    network_density: None,
                    network_size: Some(7),
                };
                let answer = ws[3];
                if !["q", "e", "d"].contains(&answer) {
                    return None;
                }
                let rewards = RewardsAddress::from([0x33u8; 20]);
                let network = self.network.clone();
                let query = ant_protocol::messages::Query::GetStoreQuote { key: addr.clone(), nonce: None, difficulty: 0 };
                let local_rx = &mut self.local_rx;
                let m2 = metrics.clone();
                let resp = self.rt.block_on(async move {
                    let fut = hook::VerifNode::handle_query(&network, query, rewards);
                    tokio::pin!(fut);
                    for _ in 0..10_000 {
                        if let std::task::Poll::Ready(r) = futures::poll!(&mut fut) {
                            return Some(r);
                        }
                        tokio::task::yield_now().await;
                        while let Ok(cmd) = local_rx.try_recv() {
                            if let LocalSwarmCmd::GetLocalQuotingMetrics { sender, .. } = cmd {
                                match answer {
                                    "q" => drop(sender.send((m2.clone(), false))),
                                    "e" => drop(sender.send((m2.clone(), true))),
                                    _ => drop(sender),
                                }
                            }
                        }
                    }
                    None
                })?;
                let ant_protocol::messages::Response::Query(ant_protocol::messages::QueryResponse::GetStoreQuote { quote, peer_address, storage_proofs }) = resp else {
                    return Some("other-response".into());
                };
                let peer = if peer_address == NetworkAddress::from_peer(self.network.peer_id()) && storage_proofs.is_empty() { "self" } else { "other" };
                Some(match quote {
                    Err(ant_protocol::error::Error::RecordExists(_)) => format!("exists peer={peer}"),
                    Err(_) => format!("failed peer={peer}"),
                    Ok(q) => {
                        let c = if Some(q.content) == own {
                            "own"
                        } else if q.content == XorName::default() {
                            "zero"
                        } else {
                            "other"
                        };
                        let signed = q.check_is_signed_by_claimed_peer(self.network.peer_id()) && q.pub_key == self.network.get_pub_key();
                        let m = q.quoting_metrics == metrics && q.rewards_address == rewards && !q.has_expired();
                        let storecost = hook::verify_quote_for_storecost(&self.network, q, &addr);
                        format!("quote content={c} signed={signed} metrics={m} storecost={storecost} peer={peer}")
                    }
                })
            }
            "duty" if ws.len() > 1 && (ws.len() - 1) % 5 == 0 => {
                let mut quotes = vec![];
                for e in ws[1..].chunks(5) {
                    let claimed = self.peer(e[0])?;
                    let mut q = PaymentQuote::zero();
                    q.content = content(tag(e[3], "c")?);
                    q.timestamp = at(self.base, e[4].parse().ok()?);
                    q.pub_key = match e[1] {
                        "KS" => self.network.get_pub_key(),
                        "G" => vec![1, 2, 3],
                        k => keypair(tag(k, "K")?).public().encode_protobuf(),
                    };
                    let bytes = q.bytes_for_sig();
                    q.signature = match e[2] {
                        "SS" => self.network.sign(&bytes).ok()?,
                        "G" => vec![9u8; 64],
                        s => keypair(tag(s, "S")?).sign(&bytes).ok()?,
                    };
                    quotes.push((claimed, q));
                }
                let sent_in = quotes.clone();
                let network = self.network.clone();
                self.rt.block_on(async move {
                    hook::quotes_verification(&network, sent_in).await;
                    // `send_local_swarm_cmd` hands the command to a spawned task: let it run
                    for _ in 0..4 {
                        tokio::task::yield_now().await;
                    }
                });
                let mut out = "none".to_string();
                while let Ok(cmd) = self.local_rx.try_recv() {
                    if let LocalSwarmCmd::QuoteVerification { quotes: fwd } = cmd {
                        // positions in the input, matching forwarded entries in order
                        let mut idx = vec![];
                        let mut from = 0;
                        for f in &fwd {
                            if let Some(k) = (from..quotes.len()).find(|k| quotes[*k].0 == f.0 && quotes[*k].1 == f.1) {
                                idx.push(k.to_string());
                                from = k + 1;
                            } else {
                                idx.push("?".into());
                            }
                        }
                        out = format!("fwd={}", if idx.is_empty() { "-".to_string() } else { idx.join(",") });
                    }
                }
                Some(out)
            }
            _ => None,
        }
    }
}

/// The property on the observable behaviour: what is passed on for historical verification is exactly the quotes of
/// OTHER peers for the same content, dated within 10 s of our own quote, that verify for the peer they are listed under —
/// and nothing at all unless our own quote is listed, is ours (signature by our key) and has not expired.
fn oracle(line: &str, res: &str, out: &mut Out) {
    let ws: Vec<&str> = line.split_whitespace().collect();
    if ws[0] == "create" {
        if res != "signed=true fields=true fresh=true storecost=true" {
            out.oracle_fail("created-quote-is-signed-by-the-node-over-the-given-fields", line, &format!("got `{res}`"));
        }
        return;
    }
    if ws[0] == "getquote" && res != "bad-op" {
        // the node answers under its own address; a quote is the node's own, over the metrics its store reported; for an
        // address that names data the quote is for that address's name. (For a peer id / raw record key there is no name:
        // the node signs a quote for XorName(0…0) — an observation, counted, not a clause of C13.)
        let named = ["c", "r", "s", "t"].contains(&ws[1]);
        let want = match ws[3] {
            "e" => "exists peer=self".to_string(),
            "d" => "failed peer=self".to_string(),
            _ => format!("quote content={} signed=true metrics=true storecost=true peer=self", if named { "own" } else { "zero" }),
        };
        if res != want && !(ws[3] == "q" && !named && res.starts_with("quote content=") && res.ends_with("signed=true metrics=true storecost=true peer=self")) {
            out.oracle_fail("get-store-quote-answers-with-own-signed-quote-for-the-address", line, &format!("got `{res}`, expected `{want}`"));
        }
        if res.starts_with("quote content=zero") {
            out.count("getquote:signed-quote-for-the-zero-name");
        }
        return;
    }
    if ws[0] != "duty" || res == "bad-op" {
        return;
    }
    let es: Vec<&[&str]> = ws[1..].chunks(5).collect();
    let off = |e: &[&str]| e[4].parse::<i128>().unwrap_or(0);
    let want = match es.iter().find(|e| e[0] == "S") {
        None => "none".to_string(),
        Some(me) => {
            let age = -off(me);
            let own_ok = me[2] == "SS" && age >= 0 && age < 3601 * S;
            if !own_ok {
                "none".to_string()
            } else {
                let idx: Vec<String> = es
                    .iter()
                    .enumerate()
                    .filter(|(_, e)| {
                        let valid = tag(e[0], "P").is_some() && tag(e[0], "P") == tag(e[1], "K") && tag(e[0], "P") == tag(e[2], "S");
                        e[0] != "S" && e[3] == me[3] && (off(e) - off(me)).abs() < 10 * S && valid
                    })
                    .map(|(i, _)| i.to_string())
                    .collect();
                format!("fwd={}", if idx.is_empty() { "-".to_string() } else { idx.join(",") })
            }
        }
    };
    if res != want {
        out.oracle_fail("quotes-passed-on-for-historical-verification", line, &format!("got `{res}`, expected `{want}`"));
    }
}

fn gen_entry(rng: &mut Rng, me_off: i128, me_content: u64) -> String {
    let i = rng.below(NKEYS);
    let (mut claimed, mut key, mut signer) = (format!("P{i}"), format!("K{i}"), format!("S{i}"));
    match rng.below(12) {
        0 => claimed = format!("P{}", (i + 1) % NKEYS),
        1 => claimed = format!("X{}", rng.below(3)),
        2 => key = format!("K{}", (i + 1) % NKEYS),
        3 => signer = format!("S{}", (i + 1) % NKEYS),
        4 => key = "G".into(),
        5 => signer = "G".into(),
        6 => signer = "SS".into(),
        _ => {}
    }
    let c = if rng.chance(1, 5) { (me_content + 1 + rng.below(2)) % 3 } else { me_content };
    let d = match rng.below(9) {
        0 => 0,
        1 => 10 * S,          // exactly the gap: not "around the same time"
        2 => 10 * S - 1,
        3 => -(10 * S),
        4 => -(10 * S) + 1,
        5 => (11 + rng.below(500) as i128) * S,
        6 => -((11 + rng.below(500) as i128) * S),
        _ => rng.below(19_000_000_000) as i128 - 9_500_000_000,
    };
    format!("{claimed} {key} {signer} c{c} {}", me_off + d)
}

fn main() {
    std::panic::set_hook(Box::new(|_| {}));
    let args = common::parse_args();
    let mut out = Out::new(&args.out);
    let lines: Vec<String> = if let Some(f) = &args.replay {
        common::read_lines(f)
    } else {
        let mut rng = Rng::new(args.seed);
        let mut v: Vec<String> = vec![];
        v.push(format!("create {} 1 2 3 4 N 5 {}", hex(&[7u8; 32]), hex(&[9u8; 20])));
        v.push(format!("duty S KS SS c0 {} P1 K1 S1 c0 {} P2 K2 S2 c0 {} P3 K3 S3 c1 {}", -60 * S, -55 * S, -75 * S, -60 * S));
        v.push(format!("duty P1 K1 S1 c0 {} P2 K2 S2 c0 {}", -60 * S, -55 * S));
        v.push(format!("duty S KS SS c0 {} P1 K1 S1 c0 {}", -4300 * S, -4300 * S));
        v.push(format!("duty S KS S1 c0 {} P1 K1 S1 c0 {}", -60 * S, -60 * S));
        for k in ["c", "r", "s", "t", "p", "k"] {
            v.push(format!("getquote {k} 1 q 3 4"));
        }
        v.push("getquote c 2 e 3 4".into());
        v.push("getquote p 2 d 3 4".into());
        for _ in 0..args.n {
            if rng.chance(1, 12) {
                v.push(format!("getquote {} {} {} {} {}", rng.pick(&["c", "r", "s", "t", "p", "k"]), rng.below(50), rng.pick(&["q", "q", "q", "e", "d"]), rng.below(100000), rng.below(100000)));
                continue;
            }
            if rng.chance(1, 6) {
                let mut c = [0u8; 32];
                c.copy_from_slice(&rng.bytes(32));
                let mut r = [0u8; 20];
                r.copy_from_slice(&rng.bytes(20));
                let d = if rng.chance(1, 2) { "N".to_string() } else { hex(&rng.bytes(32)) };
                let z = if rng.chance(1, 2) { "N".to_string() } else { (rng.next() >> rng.below(64)).to_string() };
                v.push(format!("create {} {} {} {} {} {d} {z} {}", hex(&c), rng.next() >> rng.below(64), rng.below(100000), rng.next() >> 8, rng.below(5000), hex(&r)));
                continue;
            }
            // our own quote: mostly present and fine; sometimes missing, expired, future-dated or not signed by us
            let me_content = rng.below(3);
            let me_off = match rng.below(10) {
                0 => -((4200 + rng.below(4000) as i128) * S), // expired
                1 => (600 + rng.below(600) as i128) * S,      // dated in the future
                _ => -((20 + rng.below(2900) as i128) * S),
            };
            let me = match rng.below(10) {
                0 => None,
                1 => Some(format!("S KS S{} c{me_content} {me_off}", rng.below(NKEYS))),
                2 => Some(format!("S K{} SS c{me_content} {me_off}", rng.below(NKEYS))), // our signature under a foreign key field: still ours
                3 => Some(format!("S KS G c{me_content} {me_off}")),
                _ => Some(format!("S KS SS c{me_content} {me_off}")),
            };
            let n = rng.range(1, 6);
            let mut es: Vec<String> = (0..n).map(|_| gen_entry(&mut rng, me_off, me_content)).collect();
            if let Some(m) = me {
                let pos = rng.below(es.len() as u64 + 1) as usize;
                es.insert(pos, m);
            }
            v.push(format!("duty {}", es.join(" ")));
        }
        v
    };
    let mut h = H::new();
    for l in &lines {
        let r = catch_unwind(AssertUnwindSafe(|| h.exec(l)));
        let res = match r {
            Ok(Some(s)) => s,
            Ok(None) => "bad-op".into(),
            Err(_) => {
                out.oracle_fail("no-panic", l, "panicked");
                "panic".into()
            }
        };
        oracle(l, &res, &mut out);
        let class = if l.starts_with("getquote") { format!("getquote:{}:{}", l.split_whitespace().nth(1).unwrap_or("?"), res.split_whitespace().take(2).collect::<Vec<_>>().join("-")) } else if l.starts_with("create") { "create".to_string() } else { format!("duty:{}", if res == "none" { "none" } else if res == "fwd=-" { "empty" } else { "forwarded" }) };
        out.count(&class);
        out.nontrivial_case(l);
        out.line(l.clone(), res);
    }
    out.notes.push("the 10 s window of quotes_verification is hand-modelled (tied by this run only); the node's own quote is kept ≥ 10 min from the expiry boundary".into());
    out.finish();
}
