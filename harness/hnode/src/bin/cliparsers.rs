//! C17 (client side): `DataMapChunk::from_hex`/`to_hex`, `str_to_addr`/`addr_to_str` of the autonomi crate,
//! real code under `catch_unwind` vs. the Lean model (`drv_parsers`).
//!   dmhex <s>     DataMapChunk::from_hex   -> ok <b> | err | panic      (<s> = common::hex of the string's UTF-8 bytes)
//!   dmfmt <b>     DataMapChunk(Chunk(b)).to_hex() -> <s>
//!   addr <s>      str_to_addr              -> ok <b32> | err | panic
//!   addrfmt <b32> addr_to_str(XorName)     -> <s>
//!   walletdir <n>…  wallet/fs.rs `get_wallet_files` on a fresh directory holding files with these names
//!                 (<n> = common::hex of the raw file-name bytes, may be non-UTF-8) -> ok <positions listed, in op order> | err | panic
//!   walletsel <s> <n>…  `get_wallet_selection(files)` with <s> typed at the "Select by index" prompt -> ok <cleaned name> | err | panic
//!   loadkey <s> <plain|enc|both|none> <b>  `load_private_key(address)` with that file / `.encrypted` file holding <b>
//!                 (encrypted content is kept shorter than salt+nonce or non-hex, so no KDF runs) -> ok <b> | err | panic
//!   loadwallet <s> <plain|enc|both|none> <b> <key>  `load_wallet_from_address(address)` (EVM_NETWORK is set to a named network by the
//!                 harness, so the configuration `expect` cannot fire); key = na | bad | ok:<address>: what
//!                 `Wallet::new_from_private_key` says about the file content (called directly) -> ok <address> | err | panic
//! ant-cli is a bin-only crate: wallet/fs.rs, encryption.rs, error.rs are compiled in from /repo with include!/#[path];
//! the prompts (`wallet::input`) and the env wallet (`keys`) are shims.
use autonomi::client::address::{addr_to_str, str_to_addr};
use autonomi::client::data::DataMapChunk;
use common::{hex, unhex, Out, Rng};
use std::os::unix::ffi::OsStrExt;
use std::panic::{catch_unwind, AssertUnwindSafe};
use xor_name::XorName;

/// ant-cli's `access/` modules, compiled in from /repo (main.rs re-exports them at the crate root in the same way)
#[allow(dead_code)]
mod access {
    #[path = "/repo/ant-cli/src/access/data_dir.rs"]
    pub mod data_dir;
    #[path = "/repo/ant-cli/src/access/keys.rs"]
    pub mod keys;
    #[path = "/repo/ant-cli/src/access/user_data.rs"]
    pub mod user_data;
}
#[allow(unused_imports)]
use access::{data_dir, keys, user_data};
/// ant-cli's `wallet` sub-commands (commands/wallet.rs), compiled in from /repo
#[allow(dead_code)]
#[path = "/repo/ant-cli/src/commands/wallet.rs"]
mod wallet_cmd;
#[path = "cliparsers/extra.rs"]
mod extra;
#[path = "cliparsers/datamap.rs"]
mod datamap;
#[allow(dead_code, unused_imports)]
mod wallet {
    pub const DUMMY_NETWORK: autonomi::Network = autonomi::Network::ArbitrumSepolia;
    #[path = "/repo/ant-cli/src/wallet/error.rs"]
    pub mod error;
    #[path = "/repo/ant-cli/src/wallet/encryption.rs"]
    pub mod encryption;
    /// shim of the interactive prompts: the harness supplies what the user would type
    pub mod input {
        use std::sync::Mutex;
        pub static SELECTION: Mutex<String> = Mutex::new(String::new());
        pub static PASSWORD: Mutex<String> = Mutex::new(String::new());
        pub fn get_wallet_selection_input(_prompt: &str) -> String {
            SELECTION.lock().map(|s| s.clone()).unwrap_or_default()
        }
        pub fn get_password_input(_prompt: &str) -> String {
            PASSWORD.lock().map(|s| s.clone()).unwrap_or_default()
        }
        pub fn request_password(_required: bool) -> Option<String> {
            None
        }
    }
    /// shim of `wallet::load_wallet_private_key` (env key, else interactive selection): nothing available
    pub fn load_wallet_private_key() -> color_eyre::Result<String> {
        Err(color_eyre::eyre::eyre!("no wallet in the harness"))
    }
    pub mod fs {
        include!("/repo/ant-cli/src/wallet/fs.rs");
        // pass-through access to the private helpers (harness side only; /repo is untouched)
        pub fn verif_get_wallet_files(dir: &PathBuf) -> Result<Vec<String>, Error> {
            get_wallet_files(dir)
        }
        pub fn verif_get_wallet_selection(files: Vec<String>) -> Result<String, Error> {
            get_wallet_selection(files)
        }
        pub fn verif_filter_wallet_file_extension(name: &str) -> String {
            filter_wallet_file_extension(name)
        }
    }
}

fn valid_file_name(n: &[u8]) -> bool {
    !n.is_empty() && n.len() <= 255 && n != b"." && n != b".." && !n.contains(&b'/') && !n.contains(&0)
}

fn fresh_dir(p: &std::path::Path) {
    let _ = std::fs::remove_dir_all(p);
    std::fs::create_dir_all(p).expect("create dir");
}

fn s_of(h: &str) -> Option<String> {
    String::from_utf8(unhex(h)?).ok()
}

fn exec(line: &str, tmp: &std::path::Path) -> String {
    exec_op(line, tmp).1
}

/// Returns (op line with regenerated third-party verdicts, implementation output).
fn exec_op(line: &str, tmp: &std::path::Path) -> (String, String) {
    let ws: Vec<&str> = line.split_whitespace().collect();
    let mut op = line.to_string();
    let r = catch_unwind(AssertUnwindSafe(|| -> String {
        match ws.as_slice() {
            ["walletdir", names @ ..] => {
                let Some(names) = names.iter().map(|n| unhex(n)).collect::<Option<Vec<Vec<u8>>>>() else { return "bad-op".into() };
                let distinct: std::collections::BTreeSet<&Vec<u8>> = names.iter().collect();
                if distinct.len() != names.len() || !names.iter().all(|n| valid_file_name(n)) {
                    return "bad-op".into();
                }
                let dir = tmp.join("listing");
                fresh_dir(&dir);
                for n in &names {
                    if std::fs::write(dir.join(std::ffi::OsStr::from_bytes(n)), b"x").is_err() {
                        return "bad-op".into();
                    }
                }
                match wallet::fs::verif_get_wallet_files(&dir) {
                    Ok(listed) => {
                        let mut idx: Vec<usize> = listed.iter().filter_map(|l| names.iter().position(|n| n == l.as_bytes())).collect();
                        idx.sort();
                        if idx.len() != listed.len() {
                            return "listed-unknown-entry".into();
                        }
                        format!("ok {}", if idx.is_empty() { "-".to_string() } else { idx.iter().map(|i| i.to_string()).collect::<Vec<_>>().join(",") })
                    }
                    Err(_) => "err".into(),
                }
            }
            ["walletsel", input, names @ ..] => {
                let Some(input) = s_of(input) else { return "bad-op".into() };
                let Some(names) = names.iter().map(|n| s_of(n)).collect::<Option<Vec<String>>>() else { return "bad-op".into() };
                if let Ok(mut g) = wallet::input::SELECTION.lock() {
                    *g = input;
                }
                match wallet::fs::verif_get_wallet_selection(names) {
                    Ok(a) => format!("ok {}", hex(a.as_bytes())),
                    Err(_) => "err".into(),
                }
            }
            ["loadkey", addr, kind, content] | ["loadwallet", addr, kind, content, ..] => {
                let (Some(addr), Some(content)) = (s_of(addr), unhex(content)) else { return "bad-op".into() };
                if !valid_file_name(addr.as_bytes()) || addr.len() > 240 || !["plain", "enc", "both", "none"].contains(kind) {
                    return "bad-op".into();
                }
                if *kind != "plain" && *kind != "none" {
                    if let Ok(t) = std::str::from_utf8(&content) {
                        if hex::decode(t).map(|d| d.len() >= 20).unwrap_or(false) {
                            return "bad-op".into(); // would reach the KDF; decrypt_private_key is driven by hlight's `decrypt`
                        }
                    }
                }
                // get_client_wallet_dir_path() = $XDG_DATA_HOME/autonomi/client/wallets
                let dir = tmp.join("data").join("autonomi").join("client").join("wallets");
                fresh_dir(&dir);
                if *kind == "plain" || *kind == "both" {
                    std::fs::write(dir.join(&addr), &content).expect("write");
                }
                if *kind == "enc" || *kind == "both" {
                    std::fs::write(dir.join(format!("{addr}.encrypted")), &content).expect("write");
                }
                if let Ok(mut g) = wallet::input::PASSWORD.lock() {
                    *g = "pw".into();
                }
                if ws[0] == "loadwallet" {
                    let verdict = match std::str::from_utf8(&content) {
                        Ok(t) => match autonomi::Wallet::new_from_private_key(wallet::DUMMY_NETWORK, t) {
                            Ok(w) => format!("ok:{}", w.address()),
                            Err(_) => "bad".to_string(),
                        },
                        Err(_) => "na".to_string(),
                    };
                    op = format!("loadwallet {} {kind} {} {verdict}", ws[1], ws[3]);
                    return match wallet::fs::load_wallet_from_address(&addr) {
                        Ok(w) => format!("ok {}", w.address()),
                        Err(_) => "err".into(),
                    };
                }
                match wallet::fs::load_private_key(&addr) {
                    Ok(k) => format!("ok {}", hex(k.as_bytes())),
                    Err(_) => "err".into(),
                }
            }
            ["dmhex", h] => {
                let Some(s) = s_of(h) else { return "bad-op".into() };
                match DataMapChunk::from_hex(&s) {
                    // the value is observed through the only accessor there is: to_hex (decoded independently with the hex crate)
                    Ok(d) => format!("ok {}", hex(&hex::decode(d.to_hex()).expect("to_hex prints hex"))),
                    Err(_) => "err".into(),
                }
            }
            ["dmfmt", b] => {
                let Some(b) = unhex(b) else { return "bad-op".into() };
                let d = DataMapChunk::from(ant_protocol::storage::Chunk::new(bytes::Bytes::from(b)));
                hex(d.to_hex().as_bytes())
            }
            ["addr", h] => {
                let Some(s) = s_of(h) else { return "bad-op".into() };
                match str_to_addr(&s) {
                    Ok(x) => format!("ok {}", hex(&x.0)),
                    Err(_) => "err".into(),
                }
            }
            ["addrfmt", b] => {
                let Some(Ok(a)) = unhex(b).map(<[u8; 32]>::try_from) else { return "bad-op".into() };
                hex(addr_to_str(XorName(a)).as_bytes())
            }
            other => extra::exec(other, tmp, &mut op).or_else(|| datamap::exec(other, &mut op)).unwrap_or_else(|| "bad-op".into()),
        }
    }));
    (op, r.unwrap_or_else(|_| "panic".into()))
}

fn is_wallet_name(n: &[u8]) -> bool {
    // `0x` + 40 hex digits, optionally followed by `.encrypted`
    let core = n.strip_suffix(b".encrypted").unwrap_or(n);
    core.len() == 42 && core.starts_with(b"0x") && core[2..].iter().all(|c| c.is_ascii_hexdigit())
}

fn oracle(line: &str, res: &str, out: &mut Out, tmp: &std::path::Path) {
    if res == "panic" {
        out.oracle_fail("no-panic", line, "the routine panicked (caught by catch_unwind)");
        return;
    }
    let ws: Vec<&str> = line.split_whitespace().collect();
    match ws.as_slice() {
        ["walletdir", names @ ..] if res.starts_with("ok") => {
            // every `0x`+40 hex (+`.encrypted`) entry is listed; nothing is listed whose name, with the
            // extension text removed, is not 40 hex digits with an optional `0x`
            let listed: Vec<usize> = res[2..].trim().split(',').filter_map(|x| x.parse().ok()).collect();
            for (i, n) in names.iter().enumerate() {
                let bytes = unhex(n).unwrap_or_default();
                let is_listed = listed.contains(&i);
                if is_wallet_name(&bytes) && !is_listed {
                    out.oracle_fail("listing-complete", line, &format!("wallet file {:?} is not listed", String::from_utf8_lossy(&bytes)));
                }
                if is_listed {
                    let cleaned = String::from_utf8_lossy(&bytes).replace(".encrypted", "");
                    let core = cleaned.strip_prefix("0x").unwrap_or(&cleaned);
                    if !(core.len() == 40 && core.bytes().all(|c| c.is_ascii_hexdigit())) {
                        out.oracle_fail("listing-sound", line, &format!("{:?} is listed but is not a wallet address file", String::from_utf8_lossy(&bytes)));
                    }
                }
            }
        }
        ["loadwallet", _, kind, content, ..] => {
            // a wallet is returned only for a plain file whose content is a secp256k1 private key: 64 hex digits
            // (optional 0x), not zero — stated without the wallet library
            let c = unhex(content).unwrap_or_default();
            let t = String::from_utf8_lossy(&c).to_string();
            let h = t.strip_prefix("0x").unwrap_or(&t);
            let looks_like_key = h.len() == 64 && h.bytes().all(|b| b.is_ascii_hexdigit()) && h.bytes().any(|b| b != b'0');
            if res.starts_with("ok") && !(looks_like_key && (*kind == "plain" || *kind == "both")) {
                out.oracle_fail("wallet-key-sound", line, &format!("a wallet was loaded from a file that does not hold a private key: {t:?}"));
            }
        }
        ["dmfmt", b] => {
            let back = exec(&format!("dmhex {res}"), tmp);
            if back != format!("ok {b}") {
                out.oracle_fail("roundtrip", line, &format!("DataMapChunk::from_hex(to_hex(d)) = {back}"));
            }
        }
        ["addrfmt", b] => {
            let back = exec(&format!("addr {res}"), tmp);
            if back != format!("ok {b}") {
                out.oracle_fail("roundtrip", line, &format!("str_to_addr(addr_to_str(x)) = {back}"));
            }
        }
        other => {
            extra::oracle(other, res, line, out);
            datamap::oracle(other, res, line, out);
        }
    }
}

fn hx(s: &str) -> String {
    hex(s.as_bytes())
}

fn mutate(rng: &mut Rng, s: &str) -> String {
    let mut c: Vec<char> = s.chars().collect();
    match rng.below(5) {
        0 if !c.is_empty() => {
            let i = rng.below(c.len() as u64) as usize;
            c[i] = *rng.pick(&['g', 'G', ' ', '-', 'é', 'x', '\n', '٣', '/']);
        }
        1 if !c.is_empty() => {
            let i = rng.below(c.len() as u64) as usize;
            c.remove(i);
        }
        2 => {
            let i = rng.below(c.len() as u64 + 1) as usize;
            c.insert(i, *rng.pick(&['0', 'a', 'z']));
        }
        3 => c.truncate(rng.below(c.len() as u64 + 1) as usize),
        _ => c.extend(['0', '0']),
    }
    c.into_iter().collect()
}

/// Install a TRACE-level subscriber that really formats every event (into a sink), so that the
/// `Display`/`Debug` impls reached from the parsers' log statements are executed under `catch_unwind`.
/// "Long non-ASCII" family: strings of `fill` with one 2-, 3- or 4-byte char starting at every byte
/// offset 0..=max, once near the end of the string and once followed by padding up to `max` bytes
/// (slicing a &str at a fixed byte offset is the typical slip; it only fails inside such a char).
fn non_ascii_sweep(fill: char, max: usize) -> Vec<String> {
    let mut v = vec![];
    for off in 0..=max {
        for ch in ['é', '€', '😀'] {
            let head: String = std::iter::repeat(fill).take(off).collect();
            v.push(format!("{head}{ch}{fill}"));
            let used = off + ch.len_utf8();
            if used + 1 < max {
                let tail: String = std::iter::repeat(fill).take(max - used).collect();
                v.push(format!("{head}{ch}{tail}"));
            }
        }
    }
    v
}

fn install_formatting_subscriber() {
    let _ = tracing_subscriber::fmt()
        .with_max_level(tracing::Level::TRACE)
        .with_writer(std::io::sink)
        .try_init();
}

fn main() {
    let args = &common::parse_args();
    let mut out = Out::new(&args.out);
    std::panic::set_hook(Box::new(|_| {}));
    install_formatting_subscriber();
    let tmpdir = tempfile::tempdir().expect("tempdir");
    let tmp = tmpdir.path();
    // dirs_next::data_dir() on Linux: wallet/fs.rs then works under <tmp>/data/autonomi/client/wallets
    std::env::set_var("XDG_DATA_HOME", tmp.join("data"));
    // load_wallet_from_address `expect`s an EVM network from the environment (configuration, not stored text)
    std::env::set_var("EVM_NETWORK", "arbitrum-sepolia");
    for k in ["RPC_URL", "PAYMENT_TOKEN_ADDRESS", "DATA_PAYMENTS_ADDRESS", "SECRET_KEY", "REGISTER_SIGNING_KEY"] {
        std::env::remove_var(k);
    }
    let lines: Vec<String> = if let Some(p) = &args.replay {
        common::read_lines(p)
    } else {
        let mut rng = Rng::new(args.seed);
        let mut v = vec!["addr -".to_string(), "dmhex -".to_string(), format!("addr {}", hx("0")), format!("dmhex {}", hx("0g"))];
        // every length up to the expected one + 2, in bytes and in (odd) characters
        for len in 0..=34usize {
            let s = hex::encode(rng.bytes(len));
            v.push(format!("addr {}", hx(&s)));
            v.push(format!("addr {}", hx(&s.to_uppercase())));
            if len > 0 {
                v.push(format!("addr {}", hx(&s[1..])));
            }
            v.push(format!("dmhex {}", hx(&s)));
        }
        // wallets folder listings: past failures first (stray short names, a multi-byte char across byte 42)
        let a1 = format!("0x{}", hex::encode(rng.bytes(20)));
        let a2 = format!("0x{}", hex::encode(rng.bytes(20)).to_uppercase());
        v.push(format!("walletdir {}", hx(".DS_Store")));
        v.push(format!("walletdir {} {}", hx("notes.txt"), hx(&a1)));
        v.push(format!("walletdir {} {} {}", hx(&a1), hx(&format!("{a2}.encrypted")), hx(&format!("{}é{}", "a".repeat(41), "b".repeat(5)))));
        v.push("walletdir".to_string());
        v.push(format!("walletdir {} fffe {}", hx(&a1[2..]), hex(&[b'0', b'x', 0xff, 0xfe])));
        v.push(format!("walletsel {} {} {}", hx("1"), hx(&a1), hx(&format!("{a2}.encrypted"))));
        v.push(format!("walletsel {} {}", hx("0"), hx(&a1)));
        v.push(format!("walletsel {} {}", hx("2"), hx(&a1)));
        v.push(format!("walletsel {} {}", hx("18446744073709551615"), hx(&a1)));
        v.push(format!("loadkey {} plain {}", hx(&a1), hex(b"abcd")));
        v.push(format!("loadkey {} plain fffe", hx(&a1)));
        v.push(format!("loadkey {} enc {}", hx(&a1), hex(b"00ff")));
        v.push(format!("loadkey {} both {}", hx(&a1), hex(b"00ff")));
        v.push(format!("loadkey {} none -", hx(&a1)));
        // wallet file contents: garbage first (expect() on the key panicked before the fix), then valid / edge contents
        let key = hex::encode(rng.bytes(32));
        v.push(format!("loadwallet {} plain {} x", hx(&a1), hx("not-a-private-key")));
        v.push(format!("loadwallet {} plain - x", hx(&a1)));
        v.push(format!("loadwallet {} plain {} x", hx(&a1), hx(&key)));
        v.push(format!("loadwallet {} plain {} x", hx(&a1), hx(&format!("0x{key}"))));
        v.push(format!("loadwallet {} plain {} x", hx(&a1), hx(&key.to_uppercase())));
        v.push(format!("loadwallet {} plain {} x", hx(&a1), hx(&format!("{key}\n"))));
        v.push(format!("loadwallet {} plain {} x", hx(&a1), hx(&"0".repeat(64))));
        v.push(format!("loadwallet {} plain {} x", hx(&a1), hx(&"f".repeat(64))));
        v.push(format!("loadwallet {} plain fffe x", hx(&a1)));
        v.push(format!("loadwallet {} both {} x", hx(&a1), hx("00ff")));
        v.push(format!("loadwallet {} enc {} x", hx(&a1), hx("00ff")));
        v.push(format!("loadwallet {} none - x", hx(&a1)));
        for len in [1usize, 2, 31, 62, 63, 65, 66, 67, 128] {
            let k: String = key.chars().cycle().take(len).collect();
            v.push(format!("loadwallet {} plain {} x", hx(&a1), hx(&k)));
        }
        for t in non_ascii_sweep('a', 70) {
            v.push(format!("loadwallet {} plain {} x", hx(&a1), hx(&t)));
        }
        // file names of every length 0..=46 and around the 255-byte limit
        for len in (1..=46usize).chain([100, 254, 255]) {
            let n: String = a1.chars().cycle().take(len).collect();
            v.push(format!("walletdir {}", hx(&n)));
        }
        // "long non-ASCII" family: a 2/3/4-byte char at every byte offset of an otherwise plain string
        for (i, t) in non_ascii_sweep('a', 200).into_iter().enumerate() {
            v.push(format!("addr {}", hx(&t)));
            v.push(format!("dmhex {}", hx(&t)));
            if t.len() <= 255 {
                v.push(format!("walletdir {}", hx(&t)));
            }
            if i % 3 == 0 {
                v.push(format!("walletsel {} {}", hx(&t), hx(&a1)));
                v.push(format!("walletsel {} {}", hx("1"), hx(&t)));
                if t.len() <= 240 {
                    v.push(format!("loadkey {} plain {}", hx(&t), hex(t.as_bytes())));
                }
            }
        }
        for t in non_ascii_sweep('0', 60) {
            // the same family on top of a wallet-like name: `0x000…` with the char inside / right after the address
            let n = format!("0x{t}");
            v.push(format!("walletdir {} {}", hx(&n), hx(&format!("{n}.encrypted"))));
        }
        for _ in 0..args.n {
            match rng.below(7) {
                4 | 5 => {
                    // a wallets folder: real names, `.encrypted` variants, stray files, near-misses, non-UTF-8 names
                    let k = rng.below(6);
                    let mut names: Vec<Vec<u8>> = vec![];
                    for _ in 0..k {
                        let addr = format!("0x{}", hex::encode(rng.bytes(20)));
                        let n: Vec<u8> = match rng.below(12) {
                            0 => addr.into_bytes(),
                            1 => format!("{addr}.encrypted").into_bytes(),
                            2 => addr.to_uppercase().replace("0X", "0x").into_bytes(),
                            3 => addr[2..].as_bytes().to_vec(),
                            4 => mutate(&mut rng, &addr).into_bytes(),
                            5 => mutate(&mut rng, &format!("{addr}.encrypted")).into_bytes(),
                            6 => rng.pick(&[".DS_Store", "notes.txt", "x", "0x", ".encrypted", "0x.encrypted", "Thumbs.db", "wallet.json"]).as_bytes().to_vec(),
                            7 => format!("{}.encrypted{}", &addr[..10], &addr[10..]).into_bytes(),
                            8 => format!("{addr}.encrypted.encrypted").into_bytes(),
                            9 => { let mut b = addr.into_bytes(); let i = rng.below(b.len() as u64) as usize; b[i] = *rng.pick(&[0xffu8, 0x80, 0xc3]); b }
                            10 => { let cut = rng.below(43) as usize; format!("{}é{}", &addr[..cut], &addr[cut..]).into_bytes() }
                            _ => { let l = *rng.pick(&[40usize, 41, 42, 43, 44, 52]); addr.chars().cycle().take(l).collect::<String>().into_bytes() }
                        };
                        if valid_file_name(&n) && !names.contains(&n) {
                            names.push(n);
                        }
                    }
                    v.push(format!("walletdir {}", names.iter().map(|n| hex(n)).collect::<Vec<_>>().join(" ")).trim_end().to_string());
                }
                6 => {
                    let addr = format!("0x{}", hex::encode(rng.bytes(20)));
                    if rng.chance(1, 2) {
                        let k = 1 + rng.below(3);
                        let names: Vec<String> = (0..k).map(|i| if i % 2 == 0 { hx(&addr) } else { hx(&format!("{addr}.encrypted")) }).collect();
                        let input = rng.pick(&["0", "1", "2", "3", "4", "+1", "-1", "", " 1", "1 ", "01", "1.0", "x", "18446744073709551615", "18446744073709551616", "１"]).to_string();
                        v.push(format!("walletsel {} {}", hx(&input), names.join(" ")));
                    } else {
                        let kind = *rng.pick(&["plain", "enc", "both", "none"]);
                        let content: Vec<u8> = match rng.below(5) {
                            0 => vec![],
                            1 => { let l = rng.below(19) as usize; hex::encode(rng.bytes(l)).into_bytes() }
                            2 => { let l = rng.below(8) as usize; rng.bytes(l) }
                            3 => "schlüssel".as_bytes().to_vec(),
                            _ => hex::encode(rng.bytes(32)).into_bytes()[..38].to_vec(),
                        };
                        if rng.chance(1, 2) {
                            v.push(format!("loadkey {} {kind} {}", hx(&addr), hex(&content)));
                        } else {
                            let content: Vec<u8> = if rng.chance(1, 2) { content } else {
                                let k = hex::encode(rng.bytes(32));
                                match rng.below(5) {
                                    0 => k.into_bytes(),
                                    1 => format!("0x{k}").into_bytes(),
                                    2 => mutate(&mut rng, &k).into_bytes(),
                                    3 => format!(" {k}").into_bytes(),
                                    _ => k.to_uppercase().into_bytes(),
                                }
                            };
                            if *"enc" == *kind || *"both" == *kind {
                                // encrypted contents must stay below salt+nonce (no KDF here)
                                v.push(format!("loadwallet {} plain {} x", hx(&addr), hex(&content)));
                            } else {
                                v.push(format!("loadwallet {} {kind} {} x", hx(&addr), hex(&content)));
                            }
                        }
                    }
                }
                0 => {
                    let b = rng.bytes(32);
                    v.push(format!("addrfmt {}", hex(&b)));
                    let good = hex::encode(&b);
                    v.push(format!("addr {}", hx(&mutate(&mut rng, &good))));
                }
                1 => {
                    let len = *rng.pick(&[0usize, 1, 30, 31, 32, 32, 33, 34, 64]);
                    let mut s = hex::encode(rng.bytes(len));
                    if rng.chance(1, 3) { s = s.to_uppercase(); }
                    if rng.chance(1, 4) { s = mutate(&mut rng, &s); }
                    v.push(format!("addr {}", hx(&s)));
                }
                2 => {
                    let len = rng.below(70) as usize;
                    let b = rng.bytes(len);
                    v.push(format!("dmfmt {}", hex(&b)));
                    let good = hex::encode(&b);
                    v.push(format!("dmhex {}", hx(&mutate(&mut rng, &good))));
                }
                _ => {
                    let len = rng.below(40) as usize;
                    let mut s = hex::encode(rng.bytes(len));
                    if rng.chance(1, 3) { s = s.to_uppercase(); }
                    if rng.chance(1, 3) { s = mutate(&mut rng, &s); }
                    v.push(format!("dmhex {}", hx(&s)));
                }
            }
        }
        v.extend(extra::generate(&mut rng, args.n));
        v.extend(datamap::generate(&mut rng, args.n));
        v
    };
    for l in &lines {
        let (op, r) = exec_op(l, tmp);
        let l = &op;
        oracle(l, &r, &mut out, tmp);
        let name = l.split_whitespace().next().unwrap_or("");
        let class = if r.starts_with("ok") { "ok" } else if r == "err" || r == "panic" || r == "bad-op" { r.as_str() } else { "value" };
        out.count(&format!("{name}:{class}"));
        out.nontrivial_case(l);
        out.line(l.clone(), r);
    }
    out.finish();
}
