//! C17 (client side): `DataMapChunk::from_hex`/`to_hex`, `str_to_addr`/`addr_to_str` of the autonomi crate,
//! real code under `catch_unwind` vs. the Lean model (`drv_parsers`).
//!   dmhex <s>     DataMapChunk::from_hex   -> ok <b> | err | panic      (<s> = common::hex of the string's UTF-8 bytes)
//!   dmfmt <b>     DataMapChunk(Chunk(b)).to_hex() -> <s>
//!   addr <s>      str_to_addr              -> ok <b32> | err | panic
//!   addrfmt <b32> addr_to_str(XorName)     -> <s>
use autonomi::client::address::{addr_to_str, str_to_addr};
use autonomi::client::data::DataMapChunk;
use common::{hex, unhex, Out, Rng};
use std::panic::catch_unwind;
use xor_name::XorName;

fn s_of(h: &str) -> Option<String> {
    String::from_utf8(unhex(h)?).ok()
}

fn exec(line: &str) -> String {
    let ws: Vec<&str> = line.split_whitespace().collect();
    let r = catch_unwind(|| -> String {
        match ws.as_slice() {
            ["dmhex", h] => {
                let Some(s) = s_of(h) else { return "bad-op".into() };
                match DataMapChunk::from_hex(&s) {
                    // the value is observed through the only accessor there is: to_hex (decoded independently with the hex crate)
                    Ok(d) => format!("ok {}", hex(&hex::decode(d.to_hex()).expect("to_hex prints hex"))),
                    Err(_) => "err".into(),
                }
            }
            ["dmfmt", b] => {
                let Some(b) = unhex(b) else { return "bad-op".into() };
                let d = DataMapChunk::from(ant_protocol::storage::Chunk::new(bytes::Bytes::from(b)));
                hex(d.to_hex().as_bytes())
            }
            ["addr", h] => {
                let Some(s) = s_of(h) else { return "bad-op".into() };
                match str_to_addr(&s) {
                    Ok(x) => format!("ok {}", hex(&x.0)),
                    Err(_) => "err".into(),
                }
            }
            ["addrfmt", b] => {
                let Some(Ok(a)) = unhex(b).map(<[u8; 32]>::try_from) else { return "bad-op".into() };
                hex(addr_to_str(XorName(a)).as_bytes())
            }
            _ => "bad-op".into(),
        }
    });
    r.unwrap_or_else(|_| "panic".into())
}

fn oracle(line: &str, res: &str, out: &mut Out) {
    if res == "panic" {
        out.oracle_fail("no-panic", line, "the routine panicked (caught by catch_unwind)");
        return;
    }
    let ws: Vec<&str> = line.split_whitespace().collect();
    match ws.as_slice() {
        ["dmfmt", b] => {
            let back = exec(&format!("dmhex {res}"));
            if back != format!("ok {b}") {
                out.oracle_fail("roundtrip", line, &format!("DataMapChunk::from_hex(to_hex(d)) = {back}"));
            }
        }
        ["addrfmt", b] => {
            let back = exec(&format!("addr {res}"));
            if back != format!("ok {b}") {
                out.oracle_fail("roundtrip", line, &format!("str_to_addr(addr_to_str(x)) = {back}"));
            }
        }
        _ => {}
    }
}

fn hx(s: &str) -> String {
    hex(s.as_bytes())
}

fn mutate(rng: &mut Rng, s: &str) -> String {
    let mut c: Vec<char> = s.chars().collect();
    match rng.below(5) {
        0 if !c.is_empty() => {
            let i = rng.below(c.len() as u64) as usize;
            c[i] = *rng.pick(&['g', 'G', ' ', '-', 'é', 'x', '\n', '٣', '/']);
        }
        1 if !c.is_empty() => {
            let i = rng.below(c.len() as u64) as usize;
            c.remove(i);
        }
        2 => {
            let i = rng.below(c.len() as u64 + 1) as usize;
            c.insert(i, *rng.pick(&['0', 'a', 'z']));
        }
        3 => c.truncate(rng.below(c.len() as u64 + 1) as usize),
        _ => c.extend(['0', '0']),
    }
    c.into_iter().collect()
}

/// Install a TRACE-level subscriber that really formats every event (into a sink), so that the
/// `Display`/`Debug` impls reached from the parsers' log statements are executed under `catch_unwind`.
fn install_formatting_subscriber() {
    let _ = tracing_subscriber::fmt()
        .with_max_level(tracing::Level::TRACE)
        .with_writer(std::io::sink)
        .try_init();
}

fn main() {
    let args = &common::parse_args();
    let mut out = Out::new(&args.out);
    std::panic::set_hook(Box::new(|_| {}));
    install_formatting_subscriber();
    let lines: Vec<String> = if let Some(p) = &args.replay {
        common::read_lines(p)
    } else {
        let mut rng = Rng::new(args.seed);
        let mut v = vec!["addr -".to_string(), "dmhex -".to_string(), format!("addr {}", hx("0")), format!("dmhex {}", hx("0g"))];
        // every length up to the expected one + 2, in bytes and in (odd) characters
        for len in 0..=34usize {
            let s = hex::encode(rng.bytes(len));
            v.push(format!("addr {}", hx(&s)));
            v.push(format!("addr {}", hx(&s.to_uppercase())));
            if len > 0 {
                v.push(format!("addr {}", hx(&s[1..])));
            }
            v.push(format!("dmhex {}", hx(&s)));
        }
        for _ in 0..args.n {
            match rng.below(4) {
                0 => {
                    let b = rng.bytes(32);
                    v.push(format!("addrfmt {}", hex(&b)));
                    let good = hex::encode(&b);
                    v.push(format!("addr {}", hx(&mutate(&mut rng, &good))));
                }
                1 => {
                    let len = *rng.pick(&[0usize, 1, 30, 31, 32, 32, 33, 34, 64]);
                    let mut s = hex::encode(rng.bytes(len));
                    if rng.chance(1, 3) { s = s.to_uppercase(); }
                    if rng.chance(1, 4) { s = mutate(&mut rng, &s); }
                    v.push(format!("addr {}", hx(&s)));
                }
                2 => {
                    let len = rng.below(70) as usize;
                    let b = rng.bytes(len);
                    v.push(format!("dmfmt {}", hex(&b)));
                    let good = hex::encode(&b);
                    v.push(format!("dmhex {}", hx(&mutate(&mut rng, &good))));
                }
                _ => {
                    let len = rng.below(40) as usize;
                    let mut s = hex::encode(rng.bytes(len));
                    if rng.chance(1, 3) { s = s.to_uppercase(); }
                    if rng.chance(1, 3) { s = mutate(&mut rng, &s); }
                    v.push(format!("dmhex {}", hx(&s)));
                }
            }
        }
        v
    };
    for l in &lines {
        let r = exec(l);
        oracle(l, &r, &mut out);
        let name = l.split_whitespace().next().unwrap_or("");
        let class = if r.starts_with("ok") { "ok" } else if r == "err" || r == "panic" || r == "bad-op" { r.as_str() } else { "value" };
        out.count(&format!("{name}:{class}"));
        out.nontrivial_case(l);
        out.line(l.clone(), r);
    }
    out.finish();
}
