//! C14: self-encrypted data round-trips; chunks bounded and content-addressed.
//! Real `autonomi::self_encryption::encrypt` and a real `autonomi::Client::data_get_public` over a harness-driven
//! `Network`: every `GetNetworkRecord` is answered from an in-memory map holding exactly the produced chunks, in a
//! prescribed completion order per fetch round. Built twice: default `MAX_CHUNK_SIZE` (1 MiB) and `MAX_CHUNK_SIZE=400`
//! (compile-time `option_env!` of the third-party crate) so that multi-level data maps occur with kilobyte inputs.
//!
//! Line protocol (inputs + witnesses of what the third-party crate did):
//!   enc   max=<M> len=<L> fill=<F> tab=<n1>:<w1>,<n2>:<w2>,...
//!   fetch max=<M> len=<L> fill=<F> tab=<...> codes=<c>/<c>/...
//!   put   max=<M> len=<L> fill=<F> entry=<private|public|cost> tab=<...>
//!         every client entry point that takes the caller's bytes to self-encryption, driven offline:
//!         private = Client::data_put(bytes, PaymentOption::Receipt(empty)) then Client::data_get(returned DataMapChunk);
//!         public = Client::data_put_public(bytes, Receipt(empty)) then Client::data_get_public(returned address);
//!         cost = Client::data_cost(bytes) (only generated for len < 3: it needs the network beyond that).
//!         An empty receipt means "already paid": nothing is paid or uploaded, the put returns the data map / address.
//!         The read goes against a source holding the chunks of `encrypt(bytes)` and, for len < 3, also those of the
//!         zero-padded 3-byte input (so a silently padded put reads back as something and is seen to be mangled).
//!   bound max=<M> len=<L> fill=<F> tab=<...> big=<size of the largest content chunk>
//!         measurement of the clause "every produced chunk is no larger than the maximum chunk size" on the real output:
//!         `big` is read from the real chunks (`big=?` in a replay line is filled in), the output says by how much the
//!         largest chunk exceeds MAX_CHUNK_SIZE (the third-party cipher pads: known finding K-j-chunk-exceeds-max) and
//!         whether the data-map chunk (repo code) fits
//! fill = z (zeros) | c<b> (constant byte) | p (i*7+3) | r<seed> (pseudo-random)
//! tab  = per data-map level d = 1.. (1 = the map of the user data): number of chunks n_d and size w_d of the serialised
//!        `DataMapLevel` — read back from the real output by an independent unpacker (`-` if there is none);
//!        `max=?` / `tab=?` in a replay line are filled in by the harness
//! codes = Lehmer code of the completion order of each fetch round (first round = top level), `-` = issue order;
//!        the harness follows it as far as the download window (CHUNK_DOWNLOAD_BATCH_SIZE=6) allows and writes back the
//!        order that actually happened
//!         put -> `ok same` | `ok different` | `ok unreadable:<class>` | `err selfenc` | `err <class>`
//! Output: enc -> `ok lvl=<k> dm=<size of data-map chunk> addr=<content|other> chunks=<level*count ...>` | `err selfenc`
//!         (run-length encoded levels of the returned chunk list: content chunks first, then level 2, 3, …)
//!         fetch -> `ok same` | `ok different` | `err <class>`
//!         bound -> `content within dm=<fits|over>` | `content over=<bytes over MAX_CHUNK_SIZE> dm=<fits|over>` | `err selfenc`
use ant_evm::EvmNetwork;
use ant_networking::verif::{LocalSwarmCmd, NetworkSwarmCmd};
use ant_networking::{GetRecordError, Network, NetworkError};
use ant_protocol::storage::{try_serialize_record, Chunk, RecordKind};
use autonomi::client::data::GetError;
use autonomi::Client;
use bytes::Bytes;
use common::{Out, Rng};
use libp2p::identity::Keypair;
use libp2p::kad::{Record, RecordKey};
use libp2p::PeerId;
use self_encryption::{DataMap, EncryptedChunk};
use sha3::{Digest, Sha3_256};
use std::collections::HashMap;
use std::future::Future;
use std::panic::{catch_unwind, AssertUnwindSafe};
use tokio::sync::mpsc;
use xor_name::XorName;

type GetResult = std::result::Result<Record, GetRecordError>;

fn sha3(bytes: &[u8]) -> [u8; 32] {
    let mut h = Sha3_256::new();
    h.update(bytes);
    h.finalize().into()
}

#[derive(serde::Serialize, serde::Deserialize)]
enum MirrorLevel {
    First(DataMap),
    Additional(DataMap),
}

fn make_data(len: usize, fill: &str) -> Option<Vec<u8>> {
    if fill == "z" {
        return Some(vec![0u8; len]);
    }
    if fill == "p" {
        return Some((0..len).map(|i| (i as u8).wrapping_mul(7).wrapping_add(3)).collect());
    }
    let (tag, rest) = fill.split_at(1);
    match tag {
        "c" => Some(vec![rest.parse::<u8>().ok()?; len]),
        "r" => {
            let mut r = Rng::new(rest.parse::<u64>().ok()?.wrapping_mul(0x1234_5677).wrapping_add(len as u64));
            Some(r.bytes(len))
        }
        _ => None,
    }
}

/// One data-map level as read back from the real output.
struct Level {
    n: usize,
    w: usize,
    hashes: Vec<[u8; 32]>, // dst hash per index
}

/// Independent unpacker: walks the produced chunks top-down using only the third-party crate and msgpack.
/// Returns levels in bottom-up numbering (index 0 = level 1, the map of the user data) and the bytes level 1 decrypts to.
fn unpack(dm_chunk: &[u8], store: &HashMap<[u8; 32], Vec<u8>>) -> Option<(Vec<Level>, Vec<u8>)> {
    let mut levels_top_down = vec![];
    let mut cur: Vec<u8> = dm_chunk.to_vec();
    for _ in 0..32 {
        let lvl: MirrorLevel = rmp_serde::from_slice(&cur).ok()?;
        let (dm, additional) = match lvl {
            MirrorLevel::First(m) => (m, false),
            MirrorLevel::Additional(m) => (m, true),
        };
        let infos = dm.infos();
        let mut enc = vec![];
        for info in &infos {
            let v = store.get(&info.dst_hash.0)?;
            enc.push(EncryptedChunk { index: info.index, content: Bytes::from(v.clone()) });
        }
        let data = self_encryption::decrypt_full_set(&dm, &enc).ok()?;
        levels_top_down.push(Level { n: infos.len(), w: cur.len(), hashes: infos.iter().map(|i| i.dst_hash.0).collect() });
        if !additional {
            levels_top_down.reverse();
            return Some((levels_top_down, data.to_vec()));
        }
        // what was packed: the serialised `Chunk` of the previous level, or (alternative design) its bare value
        cur = match rmp_serde::from_slice::<MirrorLevel>(&data) {
            Ok(_) => data.to_vec(),
            Err(_) => rmp_serde::from_slice::<Chunk>(&data).ok()?.value().to_vec(),
        };
    }
    None
}

struct Encrypted {
    dm_chunk: Chunk,
    chunks: Vec<Chunk>,
    levels: Vec<Level>,
}

fn real_encrypt(data: &[u8]) -> Result<Encrypted, String> {
    let (dm_chunk, chunks) = autonomi::self_encryption::encrypt(Bytes::from(data.to_vec())).map_err(|_| "selfenc".to_string())?;
    let mut store = HashMap::new();
    for c in &chunks {
        store.insert(sha3(c.value()), c.value().to_vec());
    }
    let levels = match unpack(dm_chunk.value(), &store) {
        Some((l, _)) => l,
        None => vec![],
    };
    Ok(Encrypted { dm_chunk, chunks, levels })
}

fn tab_of(e: &Encrypted) -> String {
    if e.levels.is_empty() {
        return "-".into();
    }
    e.levels.iter().map(|l| format!("{}:{}", l.n, l.w)).collect::<Vec<_>>().join(",")
}

/// data-map level (1-based) whose infos name this chunk; 0 = none
fn chunk_level(e: &Encrypted, c: &Chunk) -> usize {
    let h = sha3(c.value());
    for (d, l) in e.levels.iter().enumerate() {
        if l.hashes.iter().any(|x| *x == h) {
            return d + 1;
        }
    }
    0
}
/// run-length encoding of the levels of the returned chunk list, e.g. `1*8 2*3`
/// (the order inside one level is the third-party crate's and differs from run to run)
fn level_runs(e: &Encrypted) -> String {
    let mut runs: Vec<(usize, usize)> = vec![];
    for c in &e.chunks {
        let l = chunk_level(e, c);
        match runs.last_mut() {
            Some((ll, n)) if *ll == l => *n += 1,
            _ => runs.push((l, 1)),
        }
    }
    runs.iter().map(|(l, n)| format!("{l}*{n}")).collect::<Vec<_>>().join(" ")
}

// ---------------------------------------------------------------------------------------------------------
// Lehmer codes (mirror of the Lean `permute`)
// ---------------------------------------------------------------------------------------------------------

fn permute(code: &[usize], xs: &[usize]) -> Vec<usize> {
    if xs.is_empty() {
        return vec![];
    }
    if code.is_empty() {
        return xs.to_vec();
    }
    let mut rest = permute(&code[1..], &xs[1..]);
    let p = code[0].min(rest.len());
    rest.insert(p, xs[0]);
    rest
}
/// code of a completion sequence over 0..n (entries that never completed are appended in index order)
fn lehmer(seq: &[usize], n: usize) -> Vec<usize> {
    let mut full: Vec<usize> = seq.to_vec();
    for i in 0..n {
        if !full.contains(&i) {
            full.push(i);
        }
    }
    let pos: HashMap<usize, usize> = full.iter().enumerate().map(|(p, i)| (*i, p)).collect();
    (0..n).map(|i| (i + 1..n).filter(|j| pos[j] < pos[&i]).count()).collect()
}
fn code_str(code: &[usize]) -> String {
    // trailing zeros are the default
    let mut c = code.to_vec();
    while c.last() == Some(&0) {
        c.pop();
    }
    if c.is_empty() {
        "-".into()
    } else {
        c.iter().map(|d| d.to_string()).collect::<Vec<_>>().join(".")
    }
}
fn parse_codes(s: &str) -> Option<Vec<Vec<usize>>> {
    if s == "-" {
        return Some(vec![]);
    }
    s.split('/')
        .map(|c| if c == "-" { Some(vec![]) } else { c.split('.').map(|d| d.parse().ok()).collect() })
        .collect()
}

// ---------------------------------------------------------------------------------------------------------
// driving the client
// ---------------------------------------------------------------------------------------------------------

struct Net {
    client: Client,
    net_rx: mpsc::Receiver<NetworkSwarmCmd>,
    _local_rx: mpsc::Receiver<LocalSwarmCmd>,
}
fn new_net() -> Net {
    let (net_tx, net_rx) = mpsc::channel::<NetworkSwarmCmd>(10_000);
    let (local_tx, local_rx) = mpsc::channel::<LocalSwarmCmd>(10_000);
    let mut seed = [0u8; 32];
    seed[0] = 0x34;
    let kp = Keypair::ed25519_from_bytes(seed).expect("kp");
    let network = Network::new(net_tx, local_tx, PeerId::from(kp.public()), kp);
    Net { client: Client::verif_new(network, EvmNetwork::ArbitrumOne), net_rx, _local_rx: local_rx }
}

async fn drive<T>(
    fut: impl Future<Output = T>,
    net_rx: &mut mpsc::Receiver<NetworkSwarmCmd>,
    mut choose: impl FnMut(&[RecordKey]) -> usize,
    mut answer: impl FnMut(&RecordKey) -> GetResult,
) -> Option<T> {
    tokio::pin!(fut);
    let mut pending: Vec<(RecordKey, tokio::sync::oneshot::Sender<GetResult>)> = vec![];
    for _ in 0..1_000_000 {
        if let std::task::Poll::Ready(v) = futures::poll!(&mut fut) {
            return Some(v);
        }
        for _ in 0..4 {
            tokio::task::yield_now().await;
            while let Ok(cmd) = net_rx.try_recv() {
                if let NetworkSwarmCmd::GetNetworkRecord { key, sender, .. } = cmd {
                    pending.push((key, sender));
                }
            }
        }
        if pending.is_empty() {
            continue;
        }
        let keys: Vec<RecordKey> = pending.iter().map(|p| p.0.clone()).collect();
        let i = choose(&keys).min(pending.len() - 1);
        let (key, sender) = pending.remove(i);
        let _ = sender.send(answer(&key));
    }
    None
}

fn get_error_class(e: &GetError) -> String {
    match e {
        GetError::InvalidDataMap(_) => "datamap".into(),
        GetError::Decryption(_) => "decrypt".into(),
        GetError::Deserialization(_) => "deser".into(),
        GetError::Network(NetworkError::GetRecordError(GetRecordError::RecordNotFound)) => "nf".into(),
        GetError::Network(NetworkError::GetRecordError(GetRecordError::RecordDoesNotMatch(_))) => "mismatch".into(),
        GetError::Network(NetworkError::RecordKindMismatch(_)) => "kind".into(),
        GetError::Network(n) => format!("net:{}", format!("{n:?}").split(['(', ' ', '{']).next().unwrap_or("?")),
        GetError::Protocol(p) => format!("proto:{}", format!("{p:?}").split(['(', ' ', '{']).next().unwrap_or("?")),
    }
}

/// fetch through a real client; returns (outcome line, completion codes actually realised per round)
fn real_fetch(rt: &tokio::runtime::Runtime, e: &Encrypted, data: &[u8], want_codes: &[Vec<usize>], peak_pending: &mut usize) -> (String, Vec<Vec<usize>>) {
    // record source: exactly the produced chunks (+ the data-map chunk), under their own content addresses
    let mut source: HashMap<RecordKey, Vec<u8>> = HashMap::new();
    for c in e.chunks.iter().chain(std::iter::once(&e.dm_chunk)) {
        source.insert(RecordKey::new(&sha3(c.value())), c.value().to_vec());
    }
    // key -> (round, index); round 0 fetches the top level
    let k = e.levels.len();
    let mut place: HashMap<RecordKey, (usize, usize)> = HashMap::new();
    for (d, l) in e.levels.iter().enumerate() {
        for (i, h) in l.hashes.iter().enumerate() {
            place.insert(RecordKey::new(h), (k - 1 - d, i));
        }
    }
    // wanted completion order per round
    let wanted: Vec<Vec<usize>> = (0..k)
        .map(|r| {
            let n = e.levels[k - 1 - r].n;
            let idx: Vec<usize> = (0..n).collect();
            permute(want_codes.get(r).map(|c| c.as_slice()).unwrap_or(&[]), &idx)
        })
        .collect();
    let mut done: Vec<Vec<usize>> = vec![vec![]; k];
    let mut net = new_net();
    let client = net.client.clone();
    let addr = XorName(sha3(e.dm_chunk.value()));
    let done_ref = std::cell::RefCell::new(&mut done);
    let peak = std::cell::RefCell::new(peak_pending);
    let res = rt.block_on(drive(
        client.data_get_public(addr),
        &mut net.net_rx,
        |pending| {
            let mut pk = peak.borrow_mut();
            **pk = (**pk).max(pending.len());
            let mut best = (usize::MAX, 0usize);
            for (pi, key) in pending.iter().enumerate() {
                let rank = match place.get(key) {
                    Some((r, i)) => wanted[*r].iter().position(|x| x == i).unwrap_or(usize::MAX - 1),
                    None => 0,
                };
                if rank < best.0 {
                    best = (rank, pi);
                }
            }
            best.1
        },
        |key| {
            if let Some((r, i)) = place.get(key) {
                done_ref.borrow_mut()[*r].push(*i);
            }
            match source.get(key) {
                Some(v) => Ok(Record {
                    key: key.clone(),
                    value: try_serialize_record(&Chunk::new(Bytes::from(v.clone())), RecordKind::Chunk).expect("ser").to_vec(),
                    publisher: None,
                    expires: None,
                }),
                None => Err(GetRecordError::RecordNotFound),
            }
        },
    ));
    let line = match res {
        None => "stuck".to_string(),
        Some(Ok(d)) => if d.as_ref() == data { "ok same".into() } else { "ok different".into() },
        Some(Err(err)) => format!("err {}", get_error_class(&err)),
    };
    let codes = (0..k).map(|r| lehmer(&done[r], e.levels[k - 1 - r].n)).collect();
    (line, codes)
}

// ---------------------------------------------------------------------------------------------------------

struct Stats {
    /// largest serialised data-map level of three chunks seen (the `floor` of the Lean hypothesis `Shrinks`)
    max_w3: usize,
    max_overhead: i64,
    max_chunk: usize,
    max_record: usize,
    first_len_of_level: HashMap<usize, usize>,
    peak_pending: usize,
}

fn field<'a>(ws: &[&'a str], key: &str) -> Option<&'a str> {
    ws.iter().find_map(|w| w.strip_prefix(key).and_then(|r| r.strip_prefix('=')))
}

/// returns (normalised op line, impl output) or None if the line is for another build
fn exec(rt: &tokio::runtime::Runtime, line: &str, max: usize, out: &mut Out, st: &mut Stats) -> Option<(String, String)> {
    let ws: Vec<&str> = line.split_whitespace().collect();
    let op = *ws.first()?;
    if op != "enc" && op != "fetch" && op != "put" && op != "bound" {
        return Some((line.to_string(), "bad-op".into()));
    }
    if op == "put" {
        return exec_put(rt, &ws, max, out);
    }
    let m = field(&ws, "max")?;
    if m != "?" && m.parse::<usize>().ok()? != max {
        return None;
    }
    let (Some(len), Some(fill)) = (field(&ws, "len").and_then(|l| l.parse::<usize>().ok()), field(&ws, "fill")) else {
        return Some((line.to_string(), "bad-op".into()));
    };
    let Some(data) = make_data(len, fill) else { return Some((line.to_string(), "bad-op".into())) };
    let hist = format!("{op} max={max} len={len} fill={fill}");
    let r = catch_unwind(AssertUnwindSafe(|| real_encrypt(&data)));
    let enc = match r {
        Err(_) => {
            out.oracle_fail("no-panic", &format!("{hist} tab=? codes=-"), "encrypt panicked");
            return Some((format!("{hist} tab=-{}", if op == "fetch" { " codes=-" } else { "" }), "panic".into()));
        }
        Ok(e) => e,
    };
    // ---- oracle on encrypt (both ops)
    match &enc {
        Err(_) => {
            if len >= 3 {
                out.oracle_fail("roundtrip", &format!("{hist} tab=? codes=-"), &format!("encrypt refused an input of {len} bytes (>= 3)"));
            }
        }
        Ok(e) => {
            if len < 3 {
                out.oracle_fail("too-small-rejected", &format!("{hist} tab=? codes=-"), &format!("an input of {len} bytes (< 3) was not rejected"));
            }
            // same input, same data map and chunk addresses
            if let Ok(e2) = real_encrypt(&data) {
                // (the order of the chunk list inside one level is the third-party crate's and not stable)
                let mut a: Vec<XorName> = e.chunks.iter().map(|c| *c.name()).collect();
                let mut b: Vec<XorName> = e2.chunks.iter().map(|c| *c.name()).collect();
                a.sort();
                b.sort();
                if e.dm_chunk != e2.dm_chunk || a != b {
                    out.oracle_fail("encrypt-deterministic", &format!("{hist} tab=? codes=-"), "two encryptions of the same input differ");
                }
            }
            // content addressing, checked with an independent sha3
            for c in e.chunks.iter().chain(std::iter::once(&e.dm_chunk)) {
                if c.name().0 != sha3(c.value()) {
                    out.oracle_fail("chunks-content-addressed", &format!("{hist} tab=? codes=-"), "a produced chunk's address is not the sha3-256 of its content");
                }
            }
            // bounds: the data-map chunk against MAX_CHUNK_SIZE; content chunks against what a node stores
            if e.dm_chunk.value().len() > max {
                out.oracle_fail("datamap-chunk-bounded", &format!("{hist} tab=? codes=-"), &format!("data-map chunk of {} bytes exceeds MAX_CHUNK_SIZE {max}", e.dm_chunk.value().len()));
            }
            for c in &e.chunks {
                let rec_len = try_serialize_record(c, RecordKind::Chunk).map(|b| b.len()).unwrap_or(usize::MAX);
                st.max_record = st.max_record.max(rec_len);
                st.max_chunk = st.max_chunk.max(c.value().len());
                st.max_overhead = st.max_overhead.max(c.value().len() as i64 - max as i64);
                if rec_len >= ant_networking::MAX_PACKET_SIZE {
                    out.oracle_fail("chunks-bounded", &format!("{hist} tab=? codes=-"), &format!("a chunk record of {rec_len} bytes is not below what a node stores ({})", ant_networking::MAX_PACKET_SIZE));
                }
                // scale-free: the cipher/compression overhead over MAX_CHUNK_SIZE stays small
                if c.value().len() > max + max / 64 + 64 {
                    out.oracle_fail("chunks-bounded", &format!("{hist} tab=? codes=-"), &format!("a chunk of {} bytes exceeds MAX_CHUNK_SIZE {max} by more than the cipher overhead", c.value().len()));
                }
            }
            st.first_len_of_level.entry(e.levels.len()).and_modify(|l| *l = (*l).min(len)).or_insert(len);
            // sizes the termination argument assumes of the third-party crate (Lean: `Shrinks`): every further level's
            // serialised data map is shorter than the level below it, and a three-chunk level fits into a chunk
            for d in 1..e.levels.len() {
                if e.levels[d].w >= e.levels[d - 1].w {
                    out.oracle_fail("levels-shrink", &format!("{hist} tab=? codes=-"), &format!("data-map level {} serialises to {} bytes, not fewer than level {} ({} bytes): the pack loop need not end", d + 1, e.levels[d].w, d, e.levels[d - 1].w));
                }
            }
            for l in &e.levels {
                if l.n == 3 {
                    st.max_w3 = st.max_w3.max(l.w);
                }
            }
            if st.max_w3 > max {
                out.oracle_fail("levels-shrink", &format!("{hist} tab=? codes=-"), &format!("a three-chunk data-map level of {} bytes does not fit MAX_CHUNK_SIZE {max}", st.max_w3));
            }
        }
    }
    match (op, enc) {
        ("bound", Err(_)) => Some((format!("{hist} tab=- big=0"), "err selfenc".into())),
        ("bound", Ok(e)) => {
            let big = e.chunks.iter().map(|c| c.value().len()).max().unwrap_or(0);
            let dm = if e.dm_chunk.value().len() <= max { "fits" } else { "over" };
            out.count(&format!("bound:{}", if big > max { "over" } else { "within" }));
            Some((
                format!("{hist} tab={} big={big}", tab_of(&e)),
                if big > max { format!("content over={} dm={dm}", big - max) } else { format!("content within dm={dm}") },
            ))
        }
        ("enc", Err(_)) => Some((format!("{hist} tab=-"), "err selfenc".into())),
        ("enc", Ok(e)) => {
            let sound = e.chunks.iter().chain(std::iter::once(&e.dm_chunk)).all(|c| c.address().xorname().0 == sha3(c.value()));
            let names = level_runs(&e);
            out.count(&format!("levels:{}", e.levels.len()));
            Some((
                format!("{hist} tab={}", tab_of(&e)),
                format!("ok lvl={} dm={} addr={} chunks={}", e.levels.len(), e.dm_chunk.value().len(), if sound { "content" } else { "other" }, names),
            ))
        }
        (_, Err(_)) => Some((format!("{hist} tab=- codes=-"), "err selfenc".into())),
        (_, Ok(e)) => {
            let want = field(&ws, "codes").and_then(parse_codes).unwrap_or_default();
            let r = catch_unwind(AssertUnwindSafe(|| real_fetch(rt, &e, &data, &want, &mut st.peak_pending)));
            let (res, codes) = r.unwrap_or_else(|_| ("panic".to_string(), vec![]));
            let cs = if codes.iter().all(|c| c.iter().all(|d| *d == 0)) { "-".to_string() } else { codes.iter().map(|c| code_str(c)).collect::<Vec<_>>().join("/") };
            let norm = format!("{hist} tab={} codes={cs}", tab_of(&e));
            if res != "ok same" {
                out.oracle_fail("roundtrip", &norm, &format!("fetching the {len}-byte input back through its data map ({} level(s)) gave `{res}`", e.levels.len()));
            }
            out.count(&format!("fetch-levels:{}", e.levels.len()));
            Some((norm, res))
        }
    }
}

/// answer every GetNetworkRecord from `source` in issue order
fn simple_drive<T>(rt: &tokio::runtime::Runtime, net: &mut Net, fut: impl Future<Output = T>, source: &HashMap<RecordKey, Vec<u8>>) -> Option<T> {
    rt.block_on(drive(
        fut,
        &mut net.net_rx,
        |_| 0,
        |key| match source.get(key) {
            Some(v) => Ok(Record {
                key: key.clone(),
                value: try_serialize_record(&Chunk::new(Bytes::from(v.clone())), RecordKind::Chunk).expect("ser").to_vec(),
                publisher: None,
                expires: None,
            }),
            None => Err(GetRecordError::RecordNotFound),
        },
    ))
}

/// Play the swarm driver for a put: every `PutRecordTo` is answered Ok and the record CAPTURED (decoded as a node decodes
/// it: header `ChunkWithPayment`, body `(ProofOfPayment, Chunk)`, filed under the chunk's own address — otherwise it is
/// refused as a node refuses it); the verification's closest-peers lookup is answered with five holders and their
/// `GetChunkExistenceProof` answers are computed, as `Node::respond_x_closest_record_proof` does, from the `Chunk` record a
/// node stores for what was PUT (nothing stored: `ChunkDoesNotExist`). The client's sleeps run on a paused clock that is
/// advanced whenever nothing is pending. `stored`: record key -> chunk value, in upload order in `order`.
async fn put_drive<T>(
    fut: impl Future<Output = T>,
    net_rx: &mut mpsc::Receiver<NetworkSwarmCmd>,
    stored: &mut HashMap<RecordKey, Vec<u8>>,
    order: &mut Vec<RecordKey>,
    malformed: &mut Vec<String>,
) -> Option<T> {
    use ant_protocol::messages::{ChunkProof, Query, QueryResponse, Request, Response};
    use ant_protocol::storage::{try_deserialize_record, RecordHeader};
    use ant_protocol::NetworkAddress;
    tokio::time::pause();
    tokio::pin!(fut);
    let holders: Vec<PeerId> = (0..5u8)
        .map(|i| {
            let mut sk = [0u8; 32];
            sk[0] = 0x51;
            sk[1] = i;
            PeerId::from(Keypair::ed25519_from_bytes(sk).expect("kp").public())
        })
        .collect();
    let mut out = None;
    for _ in 0..2_000_000 {
        if let std::task::Poll::Ready(v) = futures::poll!(&mut fut) {
            out = Some(v);
            break;
        }
        let mut any = false;
        for _ in 0..4 {
            tokio::task::yield_now().await;
            while let Ok(cmd) = net_rx.try_recv() {
                any = true;
                match cmd {
                    NetworkSwarmCmd::PutRecordTo { record, sender, .. } | NetworkSwarmCmd::PutRecord { record, sender, .. } => {
                        let kind = RecordHeader::from_record(&record).map(|h| h.kind).ok();
                        let body = try_deserialize_record::<(ant_evm::ProofOfPayment, Chunk)>(&record).ok();
                        match (kind, body) {
                            (Some(RecordKind::ChunkWithPayment), Some((_, chunk))) if chunk.network_address().to_record_key() == record.key => {
                                if !stored.contains_key(&record.key) {
                                    order.push(record.key.clone());
                                }
                                stored.insert(record.key.clone(), chunk.value().to_vec());
                            }
                            (k, _) => malformed.push(format!("{k:?}")),
                        }
                        let _ = sender.send(Ok(()));
                    }
                    NetworkSwarmCmd::GetClosestPeersToAddressFromNetwork { sender, .. } => {
                        let _ = sender.send(holders.clone());
                    }
                    NetworkSwarmCmd::SendRequest { req, sender: Some(sender), .. } => {
                        let resp = match req {
                            Request::Query(Query::GetChunkExistenceProof { key, nonce, .. }) => {
                                let proof = match stored.get(&key.to_record_key()) {
                                    Some(v) => {
                                        let on_node = try_serialize_record(&Chunk::new(Bytes::from(v.clone())), RecordKind::Chunk).expect("ser").to_vec();
                                        Ok(ChunkProof::new(&on_node, nonce))
                                    }
                                    None => Err(ant_protocol::error::Error::ChunkDoesNotExist(key.clone())),
                                };
                                Ok(Response::Query(QueryResponse::GetChunkExistenceProof(vec![(key, proof)])))
                            }
                            _ => Err(NetworkError::InternalMsgChannelDropped),
                        };
                        let _ = sender.send(resp);
                    }
                    NetworkSwarmCmd::GetNetworkRecord { sender, .. } => {
                        let _ = sender.send(Err(GetRecordError::RecordNotFound));
                    }
                    _ => {}
                }
            }
        }
        if !any {
            // the client is waiting on a timer (the pause before the verification, a back-off)
            tokio::time::advance(std::time::Duration::from_millis(250)).await;
        }
    }
    let _ = NetworkAddress::from_peer(holders[0]);
    tokio::time::resume();
    out
}

/// a receipt with an entry (a payment proof naming one payee) for every given chunk name
fn receipt_for(names: &[XorName]) -> autonomi::client::payment::Receipt {
    let payee = {
        let mut sk = [0u8; 32];
        sk[0] = 0x52;
        PeerId::from(Keypair::ed25519_from_bytes(sk).expect("kp").public())
    };
    names
        .iter()
        .map(|n| {
            let mut q = ant_evm::PaymentQuote::zero();
            q.content = *n;
            (*n, (ant_evm::ProofOfPayment { peer_quotes: vec![(ant_evm::EncodedPeerId::from(payee), q)] }, ant_evm::AttoTokens::zero()))
        })
        .collect()
}

fn put_error_class(e: &autonomi::client::data::PutError) -> String {
    use autonomi::client::data::PutError;
    match e {
        PutError::SelfEncryption(_) => "selfenc".into(),
        other => format!("put:{}", format!("{other:?}").split(['(', ' ', '{']).next().unwrap_or("?")),
    }
}

/// `put` op: one client entry point that hands the caller's bytes to self-encryption, then the matching read
fn exec_put(rt: &tokio::runtime::Runtime, ws: &[&str], max: usize, out: &mut Out) -> Option<(String, String)> {
    use autonomi::client::data::CostError;
    use autonomi::client::payment::{PaymentOption, Receipt};
    let m = field(ws, "max")?;
    if m != "?" && m.parse::<usize>().ok()? != max {
        return None;
    }
    let raw = ws.join(" ");
    let (Some(len), Some(fill), Some(entry)) = (field(ws, "len").and_then(|l| l.parse::<usize>().ok()), field(ws, "fill"), field(ws, "entry")) else {
        return Some((raw, "bad-op".into()));
    };
    let Some(data) = make_data(len, fill) else { return Some((raw, "bad-op".into())) };
    if !["private", "public", "cost"].contains(&entry) {
        return Some((raw, "bad-op".into()));
    }
    // The receipt covers every chunk of encrypt(data) and its data-map chunk (for len < 3 those of the zero-padded input:
    // a silently padded put would upload and read back mangled). The READ SOURCE is what the client itself uploads:
    // the `PutRecordTo` records captured by `put_drive`, nothing else.
    let mut tab = "-".to_string();
    let mut variants: Vec<Vec<u8>> = vec![data.clone()];
    if len < 3 {
        let mut p = data.clone();
        p.resize(3, 0);
        variants.push(p);
    }
    let mut names: Vec<XorName> = vec![];
    let mut expect_private: Vec<RecordKey> = vec![];
    let mut expect_public: Vec<RecordKey> = vec![];
    for (i, v) in variants.iter().enumerate() {
        if let Ok(e) = real_encrypt(v) {
            if i == 0 {
                tab = tab_of(&e);
                expect_private = e.chunks.iter().map(|c| RecordKey::new(&sha3(c.value()))).collect();
                expect_public = expect_private.clone();
                expect_public.push(RecordKey::new(&sha3(e.dm_chunk.value())));
            }
            for c in e.chunks.iter().chain(std::iter::once(&e.dm_chunk)) {
                names.push(XorName(sha3(c.value())));
            }
        }
    }
    let norm = format!("put max={max} len={len} fill={fill} entry={entry} tab={tab}");
    let mut stored: HashMap<RecordKey, Vec<u8>> = HashMap::new();
    let mut order: Vec<RecordKey> = vec![];
    let mut malformed: Vec<String> = vec![];
    let r = catch_unwind(AssertUnwindSafe(|| {
        let mut net = new_net();
        let client = net.client.clone();
        match entry {
            "private" => match rt.block_on(put_drive(client.data_put(Bytes::from(data.clone()), PaymentOption::Receipt(receipt_for(&names))), &mut net.net_rx, &mut stored, &mut order, &mut malformed)) {
                None => "stuck".to_string(),
                Some(Err(e)) => format!("err {}", put_error_class(&e)),
                Some(Ok(dm)) => match simple_drive(rt, &mut net, client.data_get(dm), &stored) {
                    None => "stuck".into(),
                    Some(Ok(d)) => if d.as_ref() == data.as_slice() { "ok same".into() } else { "ok different".into() },
                    Some(Err(e)) => format!("ok unreadable:{}", get_error_class(&e)),
                },
            },
            "public" => match rt.block_on(put_drive(client.data_put_public(Bytes::from(data.clone()), PaymentOption::Receipt(receipt_for(&names))), &mut net.net_rx, &mut stored, &mut order, &mut malformed)) {
                None => "stuck".to_string(),
                Some(Err(e)) => format!("err {}", put_error_class(&e)),
                Some(Ok(addr)) => match simple_drive(rt, &mut net, client.data_get_public(addr), &stored) {
                    None => "stuck".into(),
                    Some(Ok(d)) => if d.as_ref() == data.as_slice() { "ok same".into() } else { "ok different".into() },
                    Some(Err(e)) => format!("ok unreadable:{}", get_error_class(&e)),
                },
            },
            _ => match simple_drive(rt, &mut net, client.data_cost(Bytes::from(data.clone())), &stored) {
                None => "stuck".to_string(),
                Some(Err(CostError::SelfEncryption(_))) => "err selfenc".into(),
                Some(Err(e)) => format!("err cost:{}", format!("{e:?}").split(['(', ' ', '{']).next().unwrap_or("?")),
                Some(Ok(_)) => "ok priced".into(),
            },
        }
    }));
    // oracle clause uploaded-set: an accepted put has uploaded exactly the chunks of encrypt(data) — the public put also
    // the data-map chunk —, each as a ChunkWithPayment record under the chunk's own address; a rejected input nothing
    {
        let mut got: Vec<Vec<u8>> = order.iter().map(|k| k.to_vec()).collect();
        got.sort();
        got.dedup();
        let mut want: Vec<Vec<u8>> = match (r.as_ref().map(|s| s.starts_with("ok")).unwrap_or(false), entry) {
            (true, "private") => expect_private.iter().map(|k| k.to_vec()).collect(),
            (true, "public") => expect_public.iter().map(|k| k.to_vec()).collect(),
            _ => vec![],
        };
        want.sort();
        want.dedup();
        if got != want || !malformed.is_empty() {
            out.oracle_fail(
                "uploaded-set",
                &norm,
                &format!("the `{entry}` put uploaded {} distinct chunk records ({} malformed), encrypt(data) gives {} to upload", got.len(), malformed.len(), want.len()),
            );
        }
        out.count(&format!("put-uploaded:{}", if got.is_empty() { "none" } else if got.len() <= 4 { "3-4" } else { "5+" }));
    }
    let res = r.unwrap_or_else(|_| "panic".into());
    // oracle: too small => an error on every entry point; otherwise what was put reads back byte-identical
    if len < 3 {
        if !res.starts_with("err ") {
            out.oracle_fail(
                "too-small-rejected",
                &norm,
                &format!("a {len}-byte input (< 3) given to the `{entry}` put entry point was not rejected with an error: `{res}`"),
            );
        }
    } else if entry != "cost" && res != "ok same" {
        out.oracle_fail("roundtrip", &norm, &format!("the {len}-byte input put through the `{entry}` entry point read back as `{res}`"));
    }
    out.count(&format!("put-entry:{entry}"));
    Some((norm, res))
}

fn gen_fill(rng: &mut Rng) -> String {
    match rng.below(6) {
        0 => "z".into(),
        1 => format!("c{}", rng.below(256)),
        2 => "p".into(),
        _ => format!("r{}", rng.below(1000)),
    }
}
fn gen_codes(rng: &mut Rng) -> String {
    if rng.chance(1, 4) {
        return "-".into();
    }
    // up to 5 rounds; per round a code long enough for the largest level (digits beyond the level are ignored)
    (0..5)
        .map(|_| (0..rng.range(1, 80)).map(|i| rng.below(80 - i.min(79) + 1).to_string()).collect::<Vec<_>>().join("."))
        .collect::<Vec<_>>()
        .join("/")
}

fn main() {
    std::env::set_var("CHUNK_DOWNLOAD_BATCH_SIZE", "6");
    std::panic::set_hook(Box::new(|_| {}));
    let args = common::parse_args();
    let mut out = Out::new(&args.out);
    let max = *self_encryption::MAX_CHUNK_SIZE;
    let rt = tokio::runtime::Builder::new_current_thread().enable_all().build().expect("runtime");
    let small = max <= 4096;
    let lines: Vec<String> = match &args.replay {
        Some(p) => common::read_lines(p),
        None => {
            let mut rng = Rng::new(args.seed);
            let mut v: Vec<String> = vec![];
            let mut lens: Vec<usize> = vec![0, 1, 2, 3, 4, 5, 16, 100, max - 1, max, max + 1, 2 * max - 1, 2 * max, 2 * max + 1, 3 * max - 1, 3 * max, 3 * max + 1];
            if small {
                // every multiple of MAX +-1 up to 80 chunks: contains the level-2, -3 and -4 thresholds
                for k in 4..=80 {
                    lens.extend_from_slice(&[k * max - 1, k * max, k * max + 1]);
                }
            } else {
                lens.extend_from_slice(&[4 * max + 1]);
            }
            // every put entry point around the minimum size, first
            for l in 0..=5usize {
                for fill in ["z", "c97", "r3"] {
                    for entry in ["private", "public", "cost"] {
                        if entry == "cost" && l >= 3 {
                            continue;
                        }
                        v.push(format!("put max={max} len={l} fill={fill} entry={entry} tab=?"));
                    }
                }
            }
            // the chunk-size measurement: below, at and above a full chunk per piece, compressible and not
            for l in [3usize, max, 3 * max - 1, 3 * max, 3 * max + 1, 4 * max, 5 * max + 7] {
                for fill in ["z", "r7"] {
                    if l > 3 * max && !small {
                        continue;
                    }
                    v.push(format!("bound max={max} len={l} fill={fill} tab=? big=?"));
                }
            }
            // boundary lengths first (both ops), then random ones
            let budget = args.n as usize + v.len();
            for (i, l) in lens.iter().enumerate() {
                if v.len() >= budget.max(12) && !small {
                    break;
                }
                let fill = if i % 3 == 0 { "z".to_string() } else { format!("r{}", i) };
                v.push(format!("enc max={max} len={l} fill={fill} tab=?"));
                v.push(format!("fetch max={max} len={l} fill={fill} tab=? codes={}", gen_codes(&mut rng)));
            }
            while v.len() < budget {
                let l = if small {
                    match rng.below(4) {
                        0 => rng.below(3 * max as u64 + 5) as usize,
                        1 => (rng.range(3, 80) as usize * max).saturating_add_signed(rng.range(0, 2) as isize - 1),
                        _ => rng.below(32_000) as usize,
                    }
                } else {
                    rng.below(5000) as usize
                };
                let fill = gen_fill(&mut rng);
                if rng.chance(1, 6) {
                    let entry = if rng.chance(1, 2) { "private" } else { "public" };
                    v.push(format!("put max={max} len={l} fill={fill} entry={entry} tab=?"));
                } else if rng.chance(1, 3) {
                    v.push(format!("enc max={max} len={l} fill={fill} tab=?"));
                } else {
                    v.push(format!("fetch max={max} len={l} fill={fill} tab=? codes={}", gen_codes(&mut rng)));
                }
            }
            v
        }
    };
    let mut st = Stats { max_w3: 0, max_overhead: i64::MIN, max_chunk: 0, max_record: 0, first_len_of_level: HashMap::new(), peak_pending: 0 };
    for line in &lines {
        if let Some((norm, res)) = exec(&rt, line, max, &mut out, &mut st) {
            let op = norm.split(' ').next().unwrap_or("?").to_string();
            out.count(&format!("{op}:{}", res.split(' ').take(if res.starts_with("err") { 2 } else if op == "fetch" { 2 } else { 1 }).collect::<Vec<_>>().join("-")));
            out.nontrivial_case(&norm);
            out.line(norm, res);
        }
    }
    let mut lv: Vec<(usize, usize)> = st.first_len_of_level.into_iter().collect();
    lv.sort();
    out.notes.push(format!(
        "selfenc MAX_CHUNK_SIZE={max}: largest content chunk {} bytes (overhead over MAX_CHUNK_SIZE {}), largest chunk record {} bytes (node limit {}); largest three-chunk data-map level {} bytes (the floor of the Lean hypothesis Shrinks; must be <= MAX_CHUNK_SIZE); every further level shorter than the one below; smallest input length seen per number of data-map levels: {:?}; download window 6, peak outstanding requests {}",
        st.max_chunk, st.max_overhead, st.max_record, ant_networking::MAX_PACKET_SIZE, st.max_w3, lv, st.peak_pending
    ));
    out.finish();
}
