//! C15: client reads are authenticated against the requested address.
//! A real `autonomi::Client` (via `Client::verif_new`) over an `ant_networking::Network` whose two command channels
//! end in this harness: every `NetworkSwarmCmd::GetNetworkRecord` the client paths send is answered with the reply
//! the op line prescribes (adversarial holders). `Network::get_record_from_network` (incl. its split handling) and
//! `chunk_get` / `data_get_public` / `fetch_and_decrypt_vault` run unmodified.
//!
//! Line protocol (inputs only; identities are small integers):
//!   chunk <content> <reply>                          Client::chunk_get(address of <content>)
//!   data <k> o=<lehmer> m=<reply> e0=<reply> e1=<reply> e2=<reply>
//!                                                    Client::data_get_public(address of the data-map chunk of data set k);
//!                                                    m answers the data-map key, e<i> the key of encrypted chunk i of set k,
//!                                                    any other key is answered honestly (`ok=c:<its content>`, `nf` outside the
//!                                                    universe); the three chunk fetches complete in the
//!                                                    order `permute lehmer [0,1,2]`
//!   vault <key> <reply>                              Client::fetch_and_decrypt_vault(secret key <key>)
//!   vaultwrite <key> <reply>                         Client::get_or_create_scratchpad(secret key <key>, 7): how the vault WRITE path starts after
//!                                                    its read got <reply>: `existing <o>.<c>.<v> t=<enc>` | `new` (a new vault, to be paid for) | `err <class>`
//!   vaultperm <key> sp=<rec>,...                     the same split reply in every iteration order (all permutations up to 3
//!                                                    records, else the rotations of the listed order and of its reverse);
//!                                                    each order runs and is judged as a `vault` case of its own
//!   data sets 0-2: ordinary bytes; 3: 3072 zero bytes, 4: 300 x 'a' (three identical chunks: the data map names ONE address
//!   three times), 5: sparse (mostly zeros; its three chunks still differ, their keys come from the neighbours). e<k>.<i> of identical chunks is written with the first index; every
//!   request for a key is answered with the reply of the first e<i> of that key
//! <content> = g<id> (generic bytes) | m<k> (data-map chunk of data set k) | e<k>.<i> (i-th encrypted chunk of set k)
//! <reply>   = nf | to | km | nc=<rec> | dn=<rec> | ok=<rec> | sp=<rec>,<rec>,...   (split: `result_map.values()` iterates in
//!             exactly the listed order — the harness rebuilds the HashMap until it does)
//! <rec>     = <hdr>:<body>[@<key>];  hdr = c (Chunk) | s (Scratchpad) | r (Register) | t (Transaction) | o (ChunkWithPayment) | p (ScratchpadWithPayment) | x (unparsable)
//!             `Record.key` of the reply (chosen by the holder, compared with the queried key by nobody below the client):
//!             absent = the requested key | @own = the key the body itself determines (chunk: hash of its content, pad: its
//!             owner's scratchpad address; the requested key for J/Z) | @<content> = that chunk's key | @v<owner> = that vault key
//!             body = <content> | P<owner>.<counter>.<sig>.<ver>[.<enc>] | R<k>.<v|w> | T<id>+<id>… | J (junk) | Z (nothing after the header)
//!             P….<enc>: `data_encoding` as delivered (default 7 = what every owner of this universe writes; the signature does not cover it)
//!             R<k>.<sig>: SignedRegister number k (its own address, never a vault or chunk key), validly signed (v) or by a stranger (w)
//!             T<ids>: a `Vec<Transaction>` of the transactions with these ids
//!             sig = v (signed by <owner>) | n (no signature) | w (signed by a stranger) | i (valid for counter-1, counter inflated)
//!             pad data is always encrypted to the *requested* key so decryption never masks a missing check
//! Output: chunk -> ok <content>|ok ? ; data -> ok d<k>|ok ? ; vault -> ok <owner>.<counter>.<ver> t=<content type returned> ; or err <class>
use ant_evm::EvmNetwork;
use ant_networking::verif::{LocalSwarmCmd, NetworkSwarmCmd};
use ant_networking::{GetRecordError, Network, NetworkError};
use ant_protocol::storage::{RecordHeader, RecordKind, Scratchpad, ScratchpadAddress};
use autonomi::client::data::GetError;
use autonomi::client::vault::VaultError;
use autonomi::Client;
use bytes::Bytes;
use common::{Out, Rng};
use libp2p::identity::Keypair;
use libp2p::kad::{Record, RecordKey};
use libp2p::PeerId;
use sha3::{Digest, Sha3_256};
use std::collections::{HashMap, HashSet};
use std::future::Future;
use std::panic::{catch_unwind, AssertUnwindSafe};
use tokio::sync::mpsc;
use xor_name::XorName;

const N_GEN: u64 = 4;
const N_SETS: u64 = 6;
/// for every data set: index of the first chunk with the same bytes as chunk i (repeated content gives repeated chunks:
/// one address named by several entries of the data map) — asserted against the real output at start-up, mirrored in the driver
const CHUNK_CLASSES: [[usize; 3]; 6] = [[0, 1, 2], [0, 1, 2], [0, 1, 2], [0, 0, 0], [0, 0, 0], [0, 1, 2]];
const N_OWNERS: u64 = 3;
const STRANGER: u64 = 9;
/// the content type every owner of this universe gives its vault when writing it
const OWNER_ENCODING: u64 = 7;
const N_REGS: u64 = 3;

type GetResult = std::result::Result<Record, GetRecordError>;

fn sha3(bytes: &[u8]) -> [u8; 32] {
    let mut h = Sha3_256::new();
    h.update(bytes);
    h.finalize().into()
}

fn bls_sk(i: u64) -> bls::SecretKey {
    let mut b = [0u8; 32];
    b[29] = 0x15;
    b[31] = (i + 1) as u8;
    bls::SecretKey::from_bytes(b).expect("bls sk")
}

// ---------------------------------------------------------------------------------------------------------
// universe
// ---------------------------------------------------------------------------------------------------------

struct World {
    sets: Vec<(Vec<u8>, Vec<u8>, Vec<Vec<u8>>)>, // (plain data, data-map chunk value, encrypted chunk values in index order)
}

impl World {
    fn new() -> Self {
        let mut sets = vec![];
        for k in 0..N_SETS {
            let data: Vec<u8> = match k {
                0..=2 => (0..(90 + 17 * k)).map(|i| (i as u8).wrapping_mul(31).wrapping_add(k as u8)).collect(),
                3 => vec![0u8; 3072],  // zero-filled: three identical chunks
                4 => vec![b'a'; 300],  // one repeated byte
                _ => {
                    // sparse: a little content at the start, zeros after it
                    let mut d = vec![0u8; 3000];
                    d[..8].copy_from_slice(b"verifC15");
                    d
                }
            };
            let (dm, chunks) = autonomi::self_encryption::encrypt(Bytes::from(data.clone())).expect("encrypt data set");
            // index order = order of the data map's infos
            let lvl: MirrorLevel = rmp_serde::from_slice(dm.value()).expect("data map level");
            let infos = match lvl {
                MirrorLevel::First(m) => m.infos(),
                MirrorLevel::Additional(_) => panic!("data set too large"),
            };
            assert_eq!(infos.len(), 3, "data sets are three chunks");
            let mut enc = vec![];
            for info in &infos {
                let c = chunks.iter().find(|c| c.name() == &info.dst_hash).expect("chunk of info");
                enc.push(c.value().to_vec());
            }
            let classes: Vec<usize> = (0..3).map(|i| (0..3).find(|j| enc[*j] == enc[i]).unwrap_or(i)).collect();
            assert_eq!(classes, CHUNK_CLASSES[k as usize].to_vec(), "chunk classes of data set {k}");
            sets.push((data, dm.value().to_vec(), enc));
        }
        World { sets }
    }
    fn content(&self, tok: &str) -> Option<Vec<u8>> {
        let (tag, rest) = tok.split_at(1);
        match tag {
            "g" => {
                let id: u64 = rest.parse().ok()?;
                Some(format!("verif-chunk-content-{id}").into_bytes())
            }
            "m" => {
                let k: usize = rest.parse().ok()?;
                Some(self.sets.get(k)?.1.clone())
            }
            "e" => {
                let (k, i) = rest.split_once('.')?;
                let k: usize = k.parse().ok()?;
                let i: usize = i.parse().ok()?;
                Some(self.sets.get(k)?.2.get(i)?.clone())
            }
            _ => None,
        }
    }
    fn all_contents(&self) -> Vec<String> {
        let mut v: Vec<String> = (0..N_GEN).map(|i| format!("g{i}")).collect();
        for k in 0..N_SETS {
            v.push(format!("m{k}"));
            for i in 0..3 {
                if CHUNK_CLASSES[k as usize][i] == i {
                    v.push(format!("e{k}.{i}"));
                }
            }
        }
        v
    }
    fn name_of(&self, bytes: &[u8]) -> String {
        self.all_contents().into_iter().find(|t| self.content(t).as_deref() == Some(bytes)).unwrap_or_else(|| "?".into())
    }
}

#[derive(serde::Serialize, serde::Deserialize)]
enum MirrorLevel {
    First(self_encryption::DataMap),
    Additional(self_encryption::DataMap),
}

#[derive(serde::Serialize)]
struct PadMirror {
    address: ScratchpadAddress,
    data_encoding: u64,
    encrypted_data: Bytes,
    counter: u64,
    signature: Option<bls::Signature>,
}

fn pad_plain(owner: u64, ctr: u64, ver: u64) -> Vec<u8> {
    format!("pad-{owner}-{ctr}-{ver}").into_bytes()
}

/// `P<owner>.<ctr>.<sig>.<ver>` with the data encrypted to key `target`
thread_local! {
    /// built pads by (descriptor, target): signing and encrypting is the expensive part of a case, and `vaultperm`
    /// runs the same pads in many orders
    static PAD_CACHE: std::cell::RefCell<HashMap<(String, u64), Scratchpad>> = std::cell::RefCell::new(HashMap::new());
}

fn build_pad(desc: &str, target: u64) -> Option<Scratchpad> {
    if let Some(p) = PAD_CACHE.with(|c| c.borrow().get(&(desc.to_string(), target)).cloned()) {
        return Some(p);
    }
    let p = build_pad_uncached(desc, target)?;
    PAD_CACHE.with(|c| {
        let mut c = c.borrow_mut();
        if c.len() > 4096 {
            c.clear();
        }
        c.insert((desc.to_string(), target), p.clone());
    });
    Some(p)
}

fn build_pad_uncached(desc: &str, target: u64) -> Option<Scratchpad> {
    let p: Vec<&str> = desc.strip_prefix('P')?.split('.').collect();
    if p.len() != 4 && p.len() != 5 {
        return None;
    }
    let data_encoding: u64 = if p.len() == 5 { p[4].parse().ok()? } else { OWNER_ENCODING };
    let owner: u64 = p[0].parse().ok()?;
    let ctr: u64 = p[1].parse().ok()?;
    let ver: u64 = p[3].parse().ok()?;
    let enc = Bytes::from(bls_sk(target).public_key().encrypt(pad_plain(owner, ctr, ver)).to_bytes());
    let to_sign = |c: u64| {
        let mut v = c.to_be_bytes().to_vec();
        v.extend_from_slice(&sha3(&enc));
        v
    };
    let signature = match p[2] {
        "v" => Some(bls_sk(owner).sign(to_sign(ctr))),
        "n" => None,
        "w" => Some(bls_sk(STRANGER).sign(to_sign(ctr))),
        "i" => Some(bls_sk(owner).sign(to_sign(ctr.wrapping_sub(1)))),
        _ => return None,
    };
    let m = PadMirror {
        address: ScratchpadAddress::new(bls_sk(owner).public_key()),
        data_encoding,
        encrypted_data: enc,
        counter: ctr,
        signature,
    };
    let bytes = rmp_serde::to_vec(&m).ok()?;
    rmp_serde::from_slice(&bytes).ok()
}

/// `R<k>.<v|w>`: a SignedRegister of its own address (owner key 20+k), signed by that owner or by a stranger
fn build_reg(desc: &str) -> Option<ant_registers::SignedRegister> {
    let (k, sig) = desc.strip_prefix('R')?.split_once('.')?;
    let k: u64 = k.parse().ok()?;
    if k >= N_REGS {
        return None;
    }
    let owner = bls_sk(20 + k);
    let reg = ant_registers::Register::new(owner.public_key(), XorName(sha3(format!("verif-register-{k}").as_bytes())), ant_registers::Permissions::AnyoneCanWrite);
    let bytes = reg.bytes().ok()?;
    let signature = match sig {
        "v" => owner.sign(bytes),
        "w" => bls_sk(STRANGER).sign(bytes),
        _ => return None,
    };
    Some(ant_registers::SignedRegister::new(reg, signature, Default::default()))
}

/// `T<id>+<id>…`: the transactions with these ids (owner key 30+id, content = the id), each signed by its owner
fn build_txs(desc: &str) -> Option<Vec<ant_protocol::storage::Transaction>> {
    let ids: Vec<u64> = desc.strip_prefix('T')?.split('+').map(|x| x.parse().ok()).collect::<Option<Vec<_>>>()?;
    if ids.is_empty() || ids.len() > 4 || ids.iter().any(|i| *i > 9) {
        return None;
    }
    Some(
        ids.iter()
            .map(|i| {
                let sk = bls_sk(30 + i);
                ant_protocol::storage::Transaction::new(sk.public_key(), vec![], [*i as u8; 32], vec![], &sk)
            })
            .collect(),
    )
}

fn vault_key(owner: u64) -> RecordKey {
    ant_protocol::NetworkAddress::from_scratchpad_address(ScratchpadAddress::new(bls_sk(owner).public_key())).to_record_key()
}

/// `<hdr>:<body>[@<key>]` -> (hdr, body, key spec)
fn split_rec(desc: &str) -> Option<(&str, &str, Option<&str>)> {
    let (rec, k) = match desc.split_once('@') {
        Some((r, k)) => (r, Some(k)),
        None => (desc, None),
    };
    let (h, body) = rec.split_once(':')?;
    Some((h, body, k))
}

/// the `Record.key` the holder files the reply under
fn rec_key(w: &World, body: &str, spec: Option<&str>, requested: &RecordKey) -> Option<RecordKey> {
    match spec {
        None => Some(requested.clone()),
        Some("own") => {
            if let Some(p) = body.strip_prefix('P') {
                Some(vault_key(p.split('.').next()?.parse().ok()?))
            } else if body == "J" || body == "Z" || body.starts_with('R') || body.starts_with('T') {
                Some(requested.clone())
            } else {
                Some(chunk_key(&w.content(body)?))
            }
        }
        Some(k) => match k.strip_prefix('v') {
            Some(o) => Some(vault_key(o.parse().ok()?)),
            None => Some(chunk_key(&w.content(k)?)),
        },
    }
}

fn build_rec(w: &World, desc: &str, key: &RecordKey, target: u64) -> Option<Record> {
    let (h, body, kspec) = split_rec(desc)?;
    let filed_under = rec_key(w, body, kspec, key)?;
    let key = &filed_under;
    let mut value: Vec<u8> = match h {
        "c" => RecordHeader { kind: RecordKind::Chunk }.try_serialize().ok()?.to_vec(),
        "s" => RecordHeader { kind: RecordKind::Scratchpad }.try_serialize().ok()?.to_vec(),
        "r" => RecordHeader { kind: RecordKind::Register }.try_serialize().ok()?.to_vec(),
        "t" => RecordHeader { kind: RecordKind::Transaction }.try_serialize().ok()?.to_vec(),
        "o" => RecordHeader { kind: RecordKind::ChunkWithPayment }.try_serialize().ok()?.to_vec(),
        "p" => RecordHeader { kind: RecordKind::ScratchpadWithPayment }.try_serialize().ok()?.to_vec(),
        "x" => vec![0x91, 0x63],
        _ => return None,
    };
    if body == "J" {
        value.extend_from_slice(&[0xc1, 0xc1, 0xc1, 0xc1]);
    } else if body == "Z" {
    } else if body.starts_with('P') {
        value.extend_from_slice(&rmp_serde::to_vec(&build_pad(body, target)?).ok()?);
    } else if body.starts_with('R') {
        value.extend_from_slice(&rmp_serde::to_vec(&build_reg(body)?).ok()?);
    } else if body.starts_with('T') {
        value.extend_from_slice(&rmp_serde::to_vec(&build_txs(body)?).ok()?);
    } else {
        let c = ant_protocol::storage::Chunk::new(Bytes::from(w.content(body)?));
        value.extend_from_slice(&rmp_serde::to_vec(&c).ok()?);
    }
    Some(Record { key: key.clone(), value, publisher: None, expires: None })
}

fn recs_of_reply(reply: &str) -> Vec<String> {
    match reply.split_once('=') {
        Some((_, r)) => r.split(',').map(|s| s.to_string()).collect(),
        None => vec![],
    }
}

fn build_reply(w: &World, reply: &str, key: &RecordKey, target: u64) -> Option<GetResult> {
    match reply {
        "nf" => return Some(Err(GetRecordError::RecordNotFound)),
        "to" => return Some(Err(GetRecordError::QueryTimeout)),
        "km" => return Some(Err(GetRecordError::RecordKindMismatch)),
        _ => {}
    }
    let (tag, rest) = reply.split_once('=')?;
    match tag {
        "ok" => Some(Ok(build_rec(w, rest, key, target)?)),
        "nc" => Some(Err(GetRecordError::NotEnoughCopies { record: build_rec(w, rest, key, target)?, expected: 3, got: 1 })),
        "dn" => Some(Err(GetRecordError::RecordDoesNotMatch(build_rec(w, rest, key, target)?))),
        "sp" => {
            let recs: Vec<Record> = rest.split(',').map(|d| build_rec(w, d, key, target)).collect::<Option<Vec<_>>>()?;
            if recs.is_empty() || recs.len() > 6 {
                return None;
            }
            // `values()` must iterate in exactly the listed order: try fresh `RandomState`s on an index-only map until one
            // gives that order, then build the real map with the same state and insertion sequence
            let names: Vec<XorName> = recs
                .iter()
                .enumerate()
                .map(|(i, r)| {
                    let mut name = sha3(&r.value);
                    name[0] = i as u8;
                    XorName(name)
                })
                .collect();
            for _ in 0..2_000_000u64 {
                let state = std::collections::hash_map::RandomState::new();
                let mut light: HashMap<XorName, usize> = HashMap::with_hasher(state.clone());
                for (i, n) in names.iter().enumerate() {
                    light.insert(*n, i);
                }
                if light.len() != recs.len() || !light.values().enumerate().all(|(pos, i)| pos == *i) {
                    continue;
                }
                let mut m: HashMap<XorName, (Record, HashSet<PeerId>)> = HashMap::with_hasher(state);
                for (n, r) in names.iter().zip(recs.iter()) {
                    m.insert(*n, (r.clone(), HashSet::new()));
                }
                if m.values().zip(recs.iter()).all(|((a, _), b)| a.value == b.value) {
                    return Some(Err(GetRecordError::SplitRecord { result_map: m }));
                }
            }
            None
        }
        _ => None,
    }
}

// ---------------------------------------------------------------------------------------------------------
// driving a client future while playing the swarm driver
// ---------------------------------------------------------------------------------------------------------

fn insert_at<T>(p: usize, x: T, v: &mut Vec<T>) {
    let p = p.min(v.len());
    v.insert(p, x);
}
/// mirror of the Lean `permute`: `permute (p :: ps) (x :: xs) = insertAt p x (permute ps xs)`
fn permute<T: Clone>(code: &[usize], xs: &[T]) -> Vec<T> {
    if xs.is_empty() {
        return vec![];
    }
    if code.is_empty() {
        return xs.to_vec();
    }
    let mut rest = permute(&code[1..], &xs[1..]);
    insert_at(code[0], xs[0].clone(), &mut rest);
    rest
}

struct Net {
    client: Client,
    network: Network,
    net_rx: mpsc::Receiver<NetworkSwarmCmd>,
    _local_rx: mpsc::Receiver<LocalSwarmCmd>,
}

fn new_net() -> Net {
    let (net_tx, net_rx) = mpsc::channel::<NetworkSwarmCmd>(10_000);
    let (local_tx, local_rx) = mpsc::channel::<LocalSwarmCmd>(10_000);
    let mut seed = [0u8; 32];
    seed[0] = 0x33;
    let kp = Keypair::ed25519_from_bytes(seed).expect("kp");
    let network = Network::new(net_tx, local_tx, PeerId::from(kp.public()), kp);
    let client = Client::verif_new(network.clone(), EvmNetwork::ArbitrumOne);
    Net { client, network, net_rx, _local_rx: local_rx }
}

/// Run `fut` to completion; `answer(key, pending_keys)` decides per step which pending request to answer
/// (returns index into pending) and with what.
async fn drive<T>(
    fut: impl Future<Output = T>,
    net_rx: &mut mpsc::Receiver<NetworkSwarmCmd>,
    mut choose: impl FnMut(&[RecordKey]) -> usize,
    mut answer: impl FnMut(&RecordKey) -> GetResult,
) -> Option<T> {
    tokio::pin!(fut);
    let mut pending: Vec<(RecordKey, tokio::sync::oneshot::Sender<GetResult>)> = vec![];
    for _ in 0..100_000 {
        if let std::task::Poll::Ready(v) = futures::poll!(&mut fut) {
            return Some(v);
        }
        // let the spawned channel-sender tasks run, then collect what was asked
        for _ in 0..4 {
            tokio::task::yield_now().await;
            while let Ok(cmd) = net_rx.try_recv() {
                if let NetworkSwarmCmd::GetNetworkRecord { key, sender, .. } = cmd {
                    pending.push((key, sender));
                }
            }
        }
        if pending.is_empty() {
            continue;
        }
        let keys: Vec<RecordKey> = pending.iter().map(|p| p.0.clone()).collect();
        let i = choose(&keys).min(pending.len() - 1);
        let (key, sender) = pending.remove(i);
        let _ = sender.send(answer(&key));
    }
    None
}

fn get_err_class(e: &GetRecordError) -> &'static str {
    match e {
        GetRecordError::RecordNotFound => "nf",
        GetRecordError::QueryTimeout => "to",
        GetRecordError::RecordKindMismatch => "km",
        GetRecordError::NotEnoughCopies { .. } => "nc",
        GetRecordError::RecordDoesNotMatch(_) => "mismatch",
        GetRecordError::SplitRecord { .. } => "split",
    }
}
fn net_err_class(e: &NetworkError) -> String {
    match e {
        NetworkError::GetRecordError(g) => get_err_class(g).to_string(),
        NetworkError::RecordKindMismatch(_) => "kind".into(),
        NetworkError::InternalMsgChannelDropped => "dropped".into(),
        NetworkError::ProtocolError(p) => proto_err_class(p),
        other => format!("net:{}", format!("{other:?}").split(['(', ' ', '{']).next().unwrap_or("?")),
    }
}
fn proto_err_class(e: &ant_protocol::Error) -> String {
    match e {
        ant_protocol::Error::RecordHeaderParsingFailed => "hdr".into(),
        ant_protocol::Error::RecordParsingFailed => "parse".into(),
        ant_protocol::Error::ScratchpadCipherTextFailed | ant_protocol::Error::ScratchpadCipherTextInvalid => "cipher".into(),
        other => format!("proto:{}", format!("{other:?}").split(['(', ' ', '{']).next().unwrap_or("?")),
    }
}
fn get_error_class(e: &GetError) -> String {
    match e {
        GetError::InvalidDataMap(_) => "datamap".into(),
        GetError::Decryption(_) => "decrypt".into(),
        GetError::Deserialization(_) => "deser".into(),
        GetError::Network(n) => net_err_class(n),
        GetError::Protocol(p) => proto_err_class(p),
    }
}
fn vault_error_class(e: &VaultError) -> String {
    match e {
        VaultError::CouldNotDeserializeVaultScratchPad(_) => "invalid".into(),
        VaultError::Missing => "missing".into(),
        VaultError::Network(n) => net_err_class(n),
        VaultError::Protocol(p) => proto_err_class(p),
        VaultError::Bls(_) => "bls".into(),
    }
}

fn chunk_key(bytes: &[u8]) -> RecordKey {
    RecordKey::new(&sha3(bytes))
}

fn exec(w: &World, rt: &tokio::runtime::Runtime, line: &str) -> String {
    let ws: Vec<&str> = line.split_whitespace().collect();
    let r = catch_unwind(AssertUnwindSafe(|| match ws.as_slice() {
        ["chunk", content, reply] => {
            let Some(bytes) = w.content(content) else { return "bad-op".to_string() };
            let key = chunk_key(&bytes);
            let Some(rep) = build_reply(w, reply, &key, 0) else { return "bad-op".to_string() };
            let mut net = new_net();
            let client = net.client.clone();
            let mut rep = Some(rep);
            let res = rt.block_on(drive(
                client.chunk_get(XorName(sha3(&bytes))),
                &mut net.net_rx,
                |_| 0,
                |_| rep.take().unwrap_or(Err(GetRecordError::RecordNotFound)),
            ));
            match res {
                None => "stuck".into(),
                Some(Ok(c)) => format!("ok {}", w.name_of(c.value())),
                Some(Err(e)) => format!("err {}", get_error_class(&e)),
            }
        }
        ["data", k, o, m, e0, e1, e2] => {
            let Ok(k) = k.parse::<usize>() else { return "bad-op".to_string() };
            if k >= w.sets.len() {
                return "bad-op".to_string();
            }
            let (Some(o), Some(m), Some(e0), Some(e1), Some(e2)) =
                (o.strip_prefix("o="), m.strip_prefix("m="), e0.strip_prefix("e0="), e1.strip_prefix("e1="), e2.strip_prefix("e2="))
            else {
                return "bad-op".to_string();
            };
            let code: Option<Vec<usize>> = if o == "-" { Some(vec![]) } else { o.split('.').map(|d| d.parse().ok()).collect() };
            let Some(code) = code else { return "bad-op".to_string() };
            let mkey = chunk_key(&w.sets[k].1);
            let ekeys: Vec<RecordKey> = w.sets[k].2.iter().map(|b| chunk_key(b)).collect();
            let mut table: Vec<(RecordKey, Option<GetResult>)> = vec![];
            let Some(r) = build_reply(w, m, &mkey, 0) else { return "bad-op".to_string() };
            table.push((mkey.clone(), Some(r)));
            for (i, e) in [e0, e1, e2].iter().enumerate() {
                let Some(r) = build_reply(w, e, &ekeys[i], 0) else { return "bad-op".to_string() };
                table.push((ekeys[i].clone(), Some(r)));
            }
            // completion order of the three chunk fetches
            let order: Vec<usize> = permute(&code, &[0usize, 1, 2]);
            let order_keys: Vec<RecordKey> = order.iter().map(|i| ekeys[*i].clone()).collect();
            let mut net = new_net();
            let client = net.client.clone();
            let res = rt.block_on(drive(
                client.data_get_public(XorName(sha3(&w.sets[k].1))),
                &mut net.net_rx,
                |pending| {
                    // the pending request that comes first in the prescribed completion order
                    let mut best = (usize::MAX, 0usize);
                    for (pi, pk) in pending.iter().enumerate() {
                        let rank = order_keys.iter().position(|k| k == pk).unwrap_or(usize::MAX - 1);
                        if rank < best.0 {
                            best = (rank, pi);
                        }
                    }
                    best.1
                },
                // every request for a key gets the reply of the first entry with that key (repeated chunks: one address,
                // asked once per data-map entry that names it)
                |key| match table.iter().find(|(k, _)| k == key) {
                    Some((_, r)) => r.clone().unwrap_or(Err(GetRecordError::RecordNotFound)),
                    // any other key of the universe is served honestly (what a substituted data map points to exists)
                    None => match w.all_contents().into_iter().find(|t| w.content(t).map(|b| chunk_key(&b)).as_ref() == Some(key)) {
                        Some(t) => build_reply(w, &format!("ok=c:{t}"), key, 0).unwrap_or(Err(GetRecordError::RecordNotFound)),
                        None => Err(GetRecordError::RecordNotFound),
                    },
                },
            ));
            match res {
                None => "stuck".into(),
                Some(Ok(d)) => {
                    // whole-data analogue of the chunk check: the returned bytes self-encrypt back to the requested address
                    let rehash = match autonomi::self_encryption::encrypt(d.clone()) {
                        Ok((dm, _)) => sha3(dm.value()) == sha3(&w.sets[k].1),
                        Err(_) => false,
                    };
                    let name = match w.sets.iter().position(|s| s.0 == d.as_ref()) {
                        Some(j) => format!("ok d{j}"),
                        None => format!("ok ?{}", d.len()),
                    };
                    if rehash { name } else { format!("{name} #rehash=bad") }
                }
                Some(Err(e)) => format!("err {}", get_error_class(&e)),
            }
        }
        ["vault", key, reply] => {
            let Ok(kn) = key.parse::<u64>() else { return "bad-op".to_string() };
            if kn >= N_OWNERS {
                return "bad-op".to_string();
            }
            let sk = bls_sk(kn);
            let rkey = vault_key(kn);
            let Some(rep) = build_reply(w, reply, &rkey, kn) else { return "bad-op".to_string() };
            let mut net = new_net();
            let client = net.client.clone();
            let mut rep = Some(rep);
            let res = rt.block_on(drive(
                client.fetch_and_decrypt_vault(&sk),
                &mut net.net_rx,
                |_| 0,
                |_| rep.take().unwrap_or(Err(GetRecordError::RecordNotFound)),
            ));
            match res {
                None => "stuck".into(),
                Some(Ok((data, enc))) => {
                    let s = String::from_utf8_lossy(&data).to_string();
                    match s.strip_prefix("pad-") {
                        Some(r) => format!("ok {} t={enc}", r.replace('-', ".")),
                        None => "ok ?".into(),
                    }
                }
                Some(Err(e)) => format!("err {}", vault_error_class(&e)),
            }
        }
        ["vaultwrite", key, reply] => {
            let Ok(kn) = key.parse::<u64>() else { return "bad-op".to_string() };
            if kn >= N_OWNERS {
                return "bad-op".to_string();
            }
            let sk = bls_sk(kn);
            let rkey = vault_key(kn);
            let Some(rep) = build_reply(w, reply, &rkey, kn) else { return "bad-op".to_string() };
            let mut net = new_net();
            let client = net.client.clone();
            let mut rep = Some(rep);
            let res = rt.block_on(drive(
                client.get_or_create_scratchpad(&sk, OWNER_ENCODING),
                &mut net.net_rx,
                |_| 0,
                |_| rep.take().unwrap_or(Err(GetRecordError::RecordNotFound)),
            ));
            match res {
                None => "stuck".into(),
                Some(Ok((_, true))) => "new".into(),
                Some(Ok((pad, false))) => match pad.decrypt_data(&sk).ok().and_then(|d| String::from_utf8(d.to_vec()).ok()) {
                    Some(s) if s.starts_with("pad-") => format!("existing {} t={}", s[4..].replace('-', "."), pad.data_encoding()),
                    _ => "existing ?".into(),
                },
                Some(Err(autonomi::client::data::PutError::Network(n))) => format!("err {}", net_err_class(&n)),
                Some(Err(autonomi::client::data::PutError::VaultBadOwner)) => "err badowner".into(),
                Some(Err(e)) => format!("err put:{}", format!("{e:?}").split(['(', ' ', '{']).next().unwrap_or("?")),
            }
        }
        _ => "bad-op".to_string(),
    }));
    r.unwrap_or_else(|_| "panic".into())
}

// ---------------------------------------------------------------------------------------------------------
// oracle: the property stated on the observable behaviour, from the descriptors only
// ---------------------------------------------------------------------------------------------------------

#[derive(serde::Deserialize)]
#[allow(dead_code)]
struct PadWire {
    address: ScratchpadAddress,
    data_encoding: u64,
    encrypted_data: Bytes,
    counter: u64,
    signature: Option<bls::Signature>,
}

/// Independent authenticity check of a record value (plain msgpack + blsttc + sha3, none of scratchpad.rs):
/// `Some((counter, "owner.counter.ver"))` iff the body is a scratchpad owned by key `kn` whose signature by that key
/// covers (counter, hash of the encrypted data).
thread_local! {
    static AUTH_CACHE: std::cell::RefCell<HashMap<(Vec<u8>, u64), Option<(u64, String)>>> = std::cell::RefCell::new(HashMap::new());
}
fn authentic_version(value: &[u8], kn: u64) -> Option<(u64, String)> {
    if let Some(r) = AUTH_CACHE.with(|c| c.borrow().get(&(value.to_vec(), kn)).cloned()) {
        return r;
    }
    let r = authentic_version_uncached(value, kn);
    AUTH_CACHE.with(|c| {
        let mut c = c.borrow_mut();
        if c.len() > 4096 {
            c.clear();
        }
        c.insert((value.to_vec(), kn), r.clone());
    });
    r
}
fn authentic_version_uncached(value: &[u8], kn: u64) -> Option<(u64, String)> {
    if value.len() <= 2 {
        return None;
    }
    let p: PadWire = rmp_serde::from_slice(&value[2..]).ok()?;
    let sk = bls_sk(kn);
    if p.address.owner() != &sk.public_key() {
        return None;
    }
    let mut signed = p.counter.to_be_bytes().to_vec();
    signed.extend_from_slice(&sha3(&p.encrypted_data));
    if !sk.public_key().verify(p.signature.as_ref()?, &signed) {
        return None;
    }
    let plain = sk.decrypt(&bls::Ciphertext::from_bytes(&p.encrypted_data).ok()?)?;
    let id = String::from_utf8(plain).ok()?.strip_prefix("pad-")?.replace('-', ".");
    Some((p.counter, id))
}

struct PadD {
    owner: u64,
    ctr: u64,
    sig: String,
    ver: u64,
    hdr: String,
    enc: u64,
}

/// replay mode (witnesses of known findings, candidates of the model search): the clauses that are known to be false of
/// the code are raised instead of counted
static STRICT: std::sync::atomic::AtomicBool = std::sync::atomic::AtomicBool::new(false);

/// `TxDictates` of the Lean model, from the descriptors: the first record with a parsable header is a `Transaction`
/// record and the transaction records carry more than one transaction (known finding K-k-wrongkind-tx-dictates)
fn tx_dictates(reply: &str) -> bool {
    if !reply.starts_with("sp=") {
        return false;
    }
    let recs = recs_of_reply(reply);
    if recs.len() < 2 {
        return false;
    }
    let parsed: Vec<(&str, &str)> = recs.iter().filter_map(|r| split_rec(r).map(|(h, b, _)| (h, b))).collect();
    let first = parsed.iter().find(|(h, b)| *h != "x" && *b != "Z");
    if first.map(|(h, _)| *h) != Some("t") {
        return false;
    }
    let mut ids: Vec<&str> = parsed.iter().filter(|(h, b)| *h == "t" && b.starts_with('T')).flat_map(|(_, b)| b[1..].split('+')).collect();
    ids.sort();
    ids.dedup();
    ids.len() > 1
}
fn pads_of_reply(reply: &str) -> Vec<PadD> {
    let mut v = vec![];
    if !(reply.starts_with("ok=") || reply.starts_with("sp=")) {
        return v; // records inside error replies other than a split are not handed to the vault code as data
    }
    for r in recs_of_reply(reply) {
        if let Some((h, b, _)) = split_rec(&r) {
            if let Some(p) = b.strip_prefix('P') {
                let f: Vec<&str> = p.split('.').collect();
                if f.len() == 4 || f.len() == 5 {
                    v.push(PadD {
                        owner: f[0].parse().unwrap_or(99),
                        ctr: f[1].parse().unwrap_or(0),
                        sig: f[2].to_string(),
                        ver: f[3].parse().unwrap_or(0),
                        hdr: h.to_string(),
                        enc: f.get(4).and_then(|e| e.parse().ok()).unwrap_or(OWNER_ENCODING),
                    });
                }
            }
        }
    }
    v
}

fn oracle(w: &World, line: &str, out_line: &str, out: &mut Out) {
    let ws: Vec<&str> = line.split_whitespace().collect();
    if out_line == "panic" || out_line == "stuck" {
        out.oracle_fail("no-panic", line, &format!("client call ended with {out_line}"));
        return;
    }
    match ws.as_slice() {
        ["chunk", content, reply] => {
            if let Some(got) = out_line.strip_prefix("ok ") {
                // independent: compare the sha3 of what came back with the requested address
                let want = w.content(content).map(|b| sha3(&b));
                let have = w.content(got).map(|b| sha3(&b));
                if have.is_none() || want != have {
                    out.oracle_fail(
                        "chunk-authentic",
                        line,
                        &format!("chunk_get(address of {content}) returned content {got}, which does not hash to the requested address (reply {reply})"),
                    );
                }
            }
        }
        ["data", k, ..] => {
            if let Some(got) = out_line.strip_prefix("ok ") {
                if got != format!("d{k}") {
                    out.oracle_fail(
                        "data-authentic",
                        line,
                        &format!("data_get_public(address of data map {k}) returned {got}: data that the requested address does not denote"),
                    );
                }
            }
        }
        ["vaultwrite", key, reply] => {
            // a NEW vault (counter 0, paid for again) only when the network said there is no record at the address
            if out_line == "new" && *reply != "nf" {
                out.oracle_fail(
                    "vault-write-starts-over",
                    line,
                    &format!("the read of the write path got `{reply}` and the write starts a NEW vault: any version stored at the address is about to be paid for again and refused by its holders"),
                );
            }
            if out_line != "new" && *reply == "nf" {
                out.oracle_fail("vault-write-creates", line, &format!("no record at the address but the write path gave `{out_line}`"));
            }
            // what it continues is judged as the vault read is
            let as_read = match out_line.strip_prefix("existing ") {
                Some(r) => format!("ok {r}"),
                None => format!("err {}", out_line.trim_start_matches("err ")),
            };
            oracle(w, &format!("vault {key} {reply}"), &as_read, out);
        }
        ["vault", key, reply] => {
            let key: u64 = key.parse().unwrap_or(99);
            let pads = pads_of_reply(reply);
            // "unsigned or foreign versions are discarded", at full strength and from the reply alone: whenever the record or
            // the split map the holders caused contains a version owned by the requested key whose signature verifies
            // (checked on the very bytes sent, with plain msgpack + blsttc + sha3, none of scratchpad.rs) — next to whatever
            // unsigned, wrongly signed, FOREIGN (validly signed by another owner) or undecodable records, in whatever
            // order — the read returns an authentic version whose counter is the highest among the authentic versions
            // that came as scratchpad records. An error, or an older version, fails.
            if key < N_OWNERS && (reply.starts_with("ok=") || reply.starts_with("sp=")) {
                let rkey = vault_key(key);
                let mut auth: Vec<(u64, String, bool)> = vec![];
                for d in recs_of_reply(reply) {
                    if let (Some(rec), Some((h, _, _))) = (build_rec(w, &d, &rkey, key), split_rec(&d)) {
                        if let Some((c, id)) = authentic_version(&rec.value, key) {
                            auth.push((c, id, h == "s"));
                        }
                    }
                }
                if !auth.is_empty() {
                    let best = auth.iter().filter(|a| a.2).map(|a| a.0).max().unwrap_or(0);
                    let ok = match out_line.strip_prefix("ok ") {
                        Some(got) => {
                            let got = got.split(" t=").next().unwrap_or(got);
                            auth.iter().any(|(c, id, _)| id == got && *c >= best)
                        }
                        None => false,
                    };
                    // one holder's Transaction record dictating the kind: known to defeat the read (K-k-wrongkind-tx-dictates)
                    let known_hole = tx_dictates(reply) && !STRICT.load(std::sync::atomic::Ordering::Relaxed);
                    if !ok && known_hole {
                        out.count("vault:tx-dictates-kind");
                    }
                    if !ok && !known_hole {
                        let mut ids: Vec<String> = auth.iter().map(|a| a.1.clone()).collect();
                        ids.sort();
                        out.oracle_fail(
                            "vault-discards-forged",
                            line,
                            &format!("the holders' replies contain validly signed version(s) {ids:?} of key {key} (highest counter among scratchpad records {best}) but the read gave `{out_line}`: forged or foreign versions must be discarded, not decide the outcome"),
                        );
                    }
                    out.count("vault:authentic-received");
                }
            }
            if let Some(got) = out_line.strip_prefix("ok ") {
                let (got, tenc) = match got.split_once(" t=") {
                    Some((g, t)) => (g, t.parse::<u64>().ok()),
                    None => (got, None),
                };
                // the content type handed to the caller must be the one the owner wrote (every owner here writes
                // OWNER_ENCODING); the signature does not cover it: known finding K-k-content-type-unsigned
                if tenc != Some(OWNER_ENCODING) {
                    if STRICT.load(std::sync::atomic::Ordering::Relaxed) || !pads.iter().any(|p| Some(p.enc) == tenc) {
                        out.oracle_fail(
                            "vault-content-type",
                            line,
                            &format!("fetch_and_decrypt_vault(key {key}) returned content type {tenc:?}; the owner wrote {OWNER_ENCODING}: the content type is whatever the answering holder put into the pad"),
                        );
                    } else {
                        out.count("vault:content-type-forged");
                    }
                }
                let f: Vec<u64> = got.split('.').filter_map(|x| x.parse().ok()).collect();
                if f.len() != 3 {
                    out.oracle_fail("vault-authentic", line, &format!("returned vault content {got} is not any received pad"));
                    return;
                }
                let authentic = |p: &PadD| p.owner == key && p.sig == "v";
                let src: Vec<&PadD> = pads.iter().filter(|p| p.owner == f[0] && p.ctr == f[1] && p.ver == f[2]).collect();
                if !src.iter().any(|p| authentic(p)) {
                    out.oracle_fail(
                        "vault-authentic",
                        line,
                        &format!("fetch_and_decrypt_vault(key {key}) returned pad {got}, which is not owned by the requested key with a valid signature"),
                    );
                    return;
                }
                let best = pads.iter().filter(|p| authentic(p) && p.hdr == "s").map(|p| p.ctr).max().unwrap_or(0);
                if f[1] < best {
                    out.oracle_fail(
                        "vault-latest",
                        line,
                        &format!("returned pad {got} has counter {} but a validly signed pad of the owner with counter {best} was received", f[1]),
                    );
                }
            }
        }
        _ => {}
    }
}

// ---------------------------------------------------------------------------------------------------------
// generator
// ---------------------------------------------------------------------------------------------------------

/// the iteration orders a split reply is tried in: all permutations up to 3 records, else the rotations of the listed
/// order and of its reverse (mirrored by the Lean driver)
fn orders_of(n: usize) -> Vec<Vec<usize>> {
    fn perms(xs: &[usize]) -> Vec<Vec<usize>> {
        if xs.is_empty() {
            return vec![vec![]];
        }
        let mut out = vec![];
        for i in 0..xs.len() {
            let mut rest = xs.to_vec();
            let x = rest.remove(i);
            for mut p in perms(&rest) {
                p.insert(0, x);
                out.push(p);
            }
        }
        out
    }
    let id: Vec<usize> = (0..n).collect();
    if n <= 3 {
        return perms(&id);
    }
    let mut out = vec![];
    let rev: Vec<usize> = id.iter().rev().cloned().collect();
    for base in [id, rev] {
        for r in 0..n {
            let mut v = base.clone();
            v.rotate_left(r);
            out.push(v);
        }
    }
    out
}

/// `vaultperm <key> sp=<rec>,...`: the same set of replies in every order of `orders_of`; each order is a plain `vault`
/// case of its own (executed on a fresh HashMap forced to that iteration order, judged by the per-case oracle and
/// reported as that `vault` line); output = the distinct outcomes, sorted, joined by ` | `
fn exec_vaultperm(w: &World, rt: &tokio::runtime::Runtime, line: &str, out: &mut Out) -> String {
    let ws: Vec<&str> = line.split_whitespace().collect();
    let (key, recs) = match ws.as_slice() {
        ["vaultperm", key, reply] => match reply.strip_prefix("sp=") {
            Some(r) => (*key, r.split(',').collect::<Vec<&str>>()),
            None => return "bad-op".into(),
        },
        _ => return "bad-op".into(),
    };
    if recs.is_empty() || recs.len() > 6 {
        return "bad-op".into();
    }
    let mut outcomes: Vec<String> = vec![];
    for order in orders_of(recs.len()) {
        let one = format!("vault {key} sp={}", order.iter().map(|i| recs[*i]).collect::<Vec<_>>().join(","));
        let res = exec(w, rt, &one);
        if res == "bad-op" {
            return "bad-op".into();
        }
        oracle(w, &one, &res, out);
        out.count("vaultperm:orders");
        if !outcomes.contains(&res) {
            outcomes.push(res);
        }
    }
    outcomes.sort();
    // "the result does not depend on the order the replies arrive in": demanded where every reply is a scratchpad record
    // (of the requested key, authentic or forged, or a foreign owner's, signed or not) and the authentic versions have
    // distinct counters — elsewhere the network layer's first-header-dictates-the-kind rule and counter ties make the
    // outcome legitimately order dependent
    let key_n: u64 = key.parse().unwrap_or(99);
    let mut eligible = true;
    let mut auth_ctrs: Vec<u64> = vec![];
    for r in &recs {
        match split_rec(r) {
            Some(("s", b, _)) if b.starts_with('P') => {
                let f: Vec<&str> = b[1..].split('.').collect();
                if (f.len() != 4 && f.len() != 5) || f[0].parse::<u64>().is_err() {
                    eligible = false;
                } else if f[0].parse::<u64>().ok() == Some(key_n) && f[2] == "v" {
                    auth_ctrs.push(f[1].parse().unwrap_or(0));
                }
            }
            _ => eligible = false,
        }
    }
    let n_auth = auth_ctrs.len();
    auth_ctrs.sort();
    auth_ctrs.dedup();
    if eligible && auth_ctrs.len() == n_auth && outcomes.len() > 1 {
        out.oracle_fail(
            "vault-order-independent",
            line,
            &format!("the same replies gave different results depending on their order: {}", outcomes.join(" | ")),
        );
    }
    outcomes.join(" | ")
}

/// versions of the requested key's vault: authentic ones with distinct counters plus forged copies (unsigned, stranger's
/// signature, counter inflated after signing) with counters above, between and below them, and (every other case) a pad
/// of another owner — validly signed by that owner, usually with a higher counter —, all under Scratchpad headers
fn gen_versions(rng: &mut Rng, key: u64) -> Vec<String> {
    let n_auth = rng.range(1, 4);
    let mut ctrs: Vec<u64> = vec![];
    while (ctrs.len() as u64) < n_auth {
        let c = rng.range(1, 9);
        if !ctrs.contains(&c) {
            ctrs.push(c);
        }
    }
    let mut recs: Vec<String> = ctrs.iter().map(|c| format!("s:P{key}.{c}.v.{}", rng.below(3))).collect();
    for _ in 0..rng.range(1, 2) {
        let c = match rng.below(4) {
            0 => 1000,
            1 => u64::MAX,
            _ => rng.range(1, 12),
        };
        recs.push(format!("s:P{key}.{c}.{}.{}", rng.pick(&["i", "n", "w"]), rng.below(3)));
    }
    // another owner's validly signed (or forged) pad, mostly with a counter above the authentic ones
    if recs.len() < 6 && rng.chance(1, 2) {
        let other = (key + rng.range(1, N_OWNERS - 1)) % N_OWNERS;
        let c = if rng.chance(2, 3) { rng.range(9, 20) } else { rng.range(1, 9) };
        recs.push(format!("s:P{other}.{c}.{}.{}", rng.pick(&["v", "v", "v", "n"]), rng.below(3)));
    }
    // one faulty holder answering with a record of another kind (a foreign register, transactions)
    if recs.len() < 6 && rng.chance(1, 3) {
        recs.push(gen_wrong_kind_rec(rng));
    }
    rng.shuffle(&mut recs);
    recs
}

fn gen_content(rng: &mut Rng) -> String {
    match rng.below(5) {
        0 | 1 => format!("g{}", rng.below(N_GEN)),
        2 => format!("m{}", rng.below(N_SETS)),
        _ => {
            let k = rng.below(N_SETS);
            format!("e{k}.{}", CHUNK_CLASSES[k as usize][rng.below(3) as usize])
        }
    }
}
fn gen_pad(rng: &mut Rng, key: u64) -> String {
    let owner = if rng.chance(2, 3) { key } else { rng.below(N_OWNERS) };
    let ctr = if rng.chance(1, 8) { *rng.pick(&[0u64, u64::MAX, u64::MAX - 1]) } else { rng.range(1, 6) };
    let sig = if rng.chance(1, 2) { "v" } else { *rng.pick(&["n", "w", "i", "v"]) };
    // one in twelve: the holder changed the content type (outside the signature)
    let enc = if rng.chance(1, 12) { format!(".{}", rng.pick(&[0u64, 8, 9, u64::MAX])) } else { String::new() };
    format!("P{owner}.{ctr}.{sig}.{}{enc}", rng.below(3))
}
fn gen_hdr(rng: &mut Rng, likely: &str) -> String {
    if rng.chance(3, 4) {
        likely.to_string()
    } else {
        rng.pick(&["c", "s", "o", "p", "x", "r", "t", "r", "t"]).to_string()
    }
}
/// a record for a chunk read whose honest content would be `want`
/// what the holder files the record under: mostly the requested key, else its own / another chunk's / a vault key
fn gen_key_suffix(rng: &mut Rng) -> String {
    match rng.below(10) {
        0..=5 => String::new(),
        6 | 7 => "@own".into(),
        8 => format!("@{}", gen_content(rng)),
        _ => format!("@v{}", rng.below(N_OWNERS)),
    }
}
/// a register or a list of transactions as a record body
fn gen_wrong_kind_body(rng: &mut Rng) -> String {
    if rng.chance(1, 2) {
        format!("R{}.{}", rng.below(N_REGS), rng.pick(&["v", "v", "w"]))
    } else {
        let n = rng.range(1, 3);
        let ids: Vec<String> = (0..n).map(|_| rng.below(4).to_string()).collect();
        format!("T{}", ids.join("+"))
    }
}
/// a whole wrong-kind record as ONE faulty holder would send it: a validly signed register of another address, or a
/// transaction record
fn gen_wrong_kind_rec(rng: &mut Rng) -> String {
    let b = gen_wrong_kind_body(rng);
    format!("{}:{b}", if b.starts_with('R') { "r" } else { "t" })
}
fn gen_chunk_rec(rng: &mut Rng, want: &str) -> String {
    if rng.chance(1, 12) {
        return format!("{}{}", gen_wrong_kind_rec(rng), gen_key_suffix(rng));
    }
    let body = match rng.below(10) {
        0..=4 => want.to_string(),
        5 | 6 => gen_content(rng),
        7 => "J".into(),
        8 => "Z".into(),
        _ => gen_pad(rng, 0),
    };
    format!("{}:{}{}", gen_hdr(rng, "c"), body, gen_key_suffix(rng))
}
fn gen_pad_rec(rng: &mut Rng, key: u64) -> String {
    if rng.chance(1, 8) {
        return format!("{}{}", gen_wrong_kind_rec(rng), gen_key_suffix(rng));
    }
    if rng.chance(1, 16) {
        return format!("{}:{}", gen_hdr(rng, "s"), gen_wrong_kind_body(rng));
    }
    let body = match rng.below(12) {
        0..=8 => gen_pad(rng, key),
        9 => "J".into(),
        10 => "Z".into(),
        _ => gen_content(rng),
    };
    format!("{}:{}{}", gen_hdr(rng, "s"), body, gen_key_suffix(rng))
}
fn gen_reply(rng: &mut Rng, mut rec: impl FnMut(&mut Rng) -> String, honest: u64, honest_rec: &str) -> String {
    // honest/20 of the replies are the honest record
    if rng.below(20) < honest {
        // authentic content; one in eight filed under some other key (the client does not look at it)
        let k = if rng.chance(1, 8) { gen_key_suffix(rng) } else { String::new() };
        return format!("ok={honest_rec}{k}");
    }
    match rng.below(12) {
        0 => "nf".into(),
        1 => "to".into(),
        2 => "km".into(),
        3 => format!("nc={}", rec(rng)),
        4 => format!("dn={}", rec(rng)),
        5..=7 => format!("ok={}", rec(rng)),
        _ => {
            let n = rng.range(1, 4);
            let mut rs: Vec<String> = vec![];
            for _ in 0..n {
                let r = rec(rng);
                if !rs.contains(&r) {
                    rs.push(r);
                }
            }
            format!("sp={}", rs.join(","))
        }
    }
}

fn gen_case(rng: &mut Rng) -> String {
    match rng.below(10) {
        0..=2 => {
            let c = gen_content(rng);
            let cc = c.clone();
            format!("chunk {c} {}", gen_reply(rng, move |r| gen_chunk_rec(r, &cc), 5, &format!("c:{c}")))
        }
        3..=5 => {
            let k = rng.below(N_SETS);
            let code = format!("{}.{}.{}", rng.below(3), rng.below(3), rng.below(2));
            let m = format!("m{k}");
            let mm = m.clone();
            let mr = gen_reply(rng, move |r| gen_chunk_rec(r, &mm), 17, &format!("c:{m}"));
            let mut es = vec![];
            for i in 0..3 {
                let e = format!("e{k}.{}", CHUNK_CLASSES[k as usize][i]);
                let ee = e.clone();
                es.push(gen_reply(rng, move |r| gen_chunk_rec(r, &ee), 17, &format!("c:{e}")));
            }
            format!("data {k} o={code} m={mr} e0={} e1={} e2={}", es[0], es[1], es[2])
        }
        6 => {
            let key = rng.below(N_OWNERS);
            let recs = gen_versions(rng, key);
            if rng.chance(1, 5) {
                format!("vaultperm {key} sp={}", recs.join(","))
            } else {
                format!("vault {key} sp={}", recs.join(","))
            }
        }
        _ => {
            let key = rng.below(N_OWNERS);
            let honest = format!("s:P{key}.{}.v.{}", rng.range(1, 6), rng.below(3));
            let op = if rng.chance(1, 6) { "vaultwrite" } else { "vault" };
            format!("{op} {key} {}", gen_reply(rng, move |r| gen_pad_rec(r, key), 3, &honest))
        }
    }
}

/// minimal inputs of the defect hypotheses F-k / F-l and other boundary cases, always run first
const CORPUS: &[&str] = &[
    "chunk g0 ok=c:g0",
    "chunk g0 ok=c:g1",
    "chunk m0 ok=c:m1",
    "chunk g0 ok=s:g0",
    "chunk g0 ok=x:g0",
    "chunk g0 ok=c:J",
    "chunk g0 ok=c:Z",
    "chunk g0 nf",
    "chunk g0 sp=c:g0,c:g1",
    "chunk g0 sp=s:P0.3.v.0,s:P0.4.v.0",
    "data 0 o=0.0.0 m=ok=c:m0 e0=ok=c:e0.0 e1=ok=c:e0.1 e2=ok=c:e0.2",
    "data 0 o=2.1.0 m=ok=c:m0 e0=ok=c:e0.0 e1=ok=c:e0.1 e2=ok=c:e0.2",
    "data 0 o=0.0.0 m=ok=c:m1 e0=ok=c:e0.0 e1=ok=c:e0.1 e2=ok=c:e0.2",
    "data 1 o=0.1.0 m=ok=c:m1 e0=ok=c:e1.0 e1=ok=c:e0.1 e2=ok=c:e1.2",
    "data 1 o=0.1.0 m=ok=c:m1 e0=ok=c:e1.0 e1=nf e2=to",
    "data 1 o=1.1.0 m=ok=c:m1 e0=ok=c:e1.0 e1=nf e2=to",
    "data 2 o=0.0.0 m=ok=c:g2 e0=nf e1=nf e2=nf",
    "vault 0 ok=s:P0.3.v.0",
    "vault 0 ok=s:P1.3.v.0",
    "vault 0 ok=s:P0.3.n.0",
    "vault 0 ok=s:P0.3.w.0",
    "vault 0 ok=s:P0.9.i.0",
    "vault 0 ok=c:P0.3.v.0",
    "vault 0 ok=s:J",
    "vault 0 nf",
    "vault 0 sp=s:P0.3.v.0,s:P0.4.v.1",
    "vault 0 sp=s:P0.3.v.0,s:P0.9.n.1",
    "vault 0 sp=s:P0.3.n.0,s:P0.9.n.1",
    "vault 0 sp=s:P0.3.v.0,s:P1.9.v.1",
    "vault 0 sp=c:J,s:P0.3.v.0,s:P0.9.i.1",
    "vault 0 sp=c:J,s:P0.3.v.0,s:P1.9.v.1",
    "vault 0 sp=c:J,s:P0.3.v.0,s:J",
    "vault 0 sp=s:P0.3.v.0",
    "vault 0 sp=s:P1.3.v.0",
    "vault 0 sp=x:J,s:P0.3.v.0,s:P0.4.v.0",
    "vault 0 sp=o:P0.5.v.0,s:P0.3.v.0",
    "vault 0 sp=s:P0.3.v.0,o:P0.5.v.0",
    "vault 1 sp=s:P1.4.v.0,s:P1.4.v.1",
    // Record.key chosen by the holder: another chunk's genuine record under that chunk's own key, requested content under a foreign key
    "chunk g0 ok=c:g1@own",
    "chunk m0 ok=c:m1@own",
    "chunk g0 ok=c:g0@own",
    "chunk g0 ok=c:g0@g1",
    "chunk g0 ok=c:g0@v1",
    "chunk e0.1 ok=c:e1.1@own",
    "chunk g0 ok=s:g1@own",
    "chunk g0 nc=c:g1@own",
    "chunk g0 sp=c:g1@own,c:g2@own",
    "data 0 o=0.0.0 m=ok=c:m1@own e0=ok=c:e0.0 e1=ok=c:e0.1 e2=ok=c:e0.2",
    "data 0 o=0.0.0 m=ok=c:m1@own e0=ok=c:e1.0@own e1=ok=c:e1.1@own e2=ok=c:e1.2@own",
    "data 0 o=1.0.0 m=ok=c:m0 e0=ok=c:e0.0 e1=ok=c:e1.1@own e2=ok=c:e0.2",
    "data 2 o=0.1.0 m=ok=c:m2 e0=ok=c:g1@own e1=ok=c:e2.1 e2=ok=c:e2.2",
    "data 0 o=2.1.0 m=ok=c:m0@g3 e0=ok=c:e0.0@v1 e1=ok=c:e0.1@e1.1 e2=ok=c:e0.2@own",
    "vault 0 ok=s:P1.3.v.0@own",
    "vault 0 ok=s:P1.3.v.0@v1",
    "vault 0 ok=s:P0.3.v.0@v1",
    "vault 0 ok=s:P0.3.v.0@g0",
    "vault 0 ok=s:P0.3.n.0@own",
    "vault 0 sp=s:P1.9.v.1@own,s:P0.3.v.0",
    "vault 0 sp=c:J,s:P1.9.v.1@own,s:P0.3.v.0@g0",
    "vault 0 sp=c:J,s:P0.4.v.1@v2,s:P0.3.v.0@own",
    "vault 2 sp=s:P0.7.v.0@own,s:P1.8.v.0@own",
    // forged higher-counter versions next to an authentic one, in split maps that reach the vault code
    "vault 0 sp=c:J,s:P0.3.v.0,s:P0.9.i.1",
    "vault 0 sp=c:J,s:P0.3.v.0,s:P0.9.n.1",
    "vault 0 sp=c:J,s:P0.3.v.0,s:P0.9.w.1",
    "vault 0 sp=c:J,s:P0.9.n.1,s:P0.3.v.0,s:P0.4.v.1",
    "vault 0 sp=o:P0.18446744073709551615.n.0,s:P0.3.v.0",
    "vault 0 sp=x:J,o:P1.9.v.1,s:P0.3.v.0",
    "vault 1 sp=c:g0,s:P1.2.v.0,s:P0.7.v.0,s:P1.8.i.2",
    // a forged inflated counter between an older and the newest authentic version, in every order
    "vault 0 sp=s:P0.3.v.0,s:P0.9.i.1,s:P0.5.v.2",
    "vault 0 sp=s:P0.3.v.0,s:P0.1000.n.1,s:P0.5.v.2",
    "vaultperm 0 sp=s:P0.3.v.0,s:P0.9.i.1,s:P0.5.v.2",
    "vaultperm 0 sp=s:P0.1.v.0,s:P0.2.v.0,s:P0.3.v.0,s:P0.4.v.0,s:P0.5.v.0,s:P0.1000.i.1",
    "vaultperm 1 sp=s:P1.4.v.1,s:P1.5.i.2,s:P1.6.v.1,s:P1.3.n.2",
    "vaultperm 0 sp=s:P0.3.v.0,s:P0.4.v.1",
    "vaultperm 0 sp=c:J,s:P0.3.v.0,s:P1.9.v.1",
    // a FOREIGN validly signed pad with a higher counter next to the authentic one, in split maps the network layer handles
    // itself (all headers Scratchpad): it must not win inside handle_split_record_error and then be refused by the client
    "vault 0 sp=s:P1.9.v.1,s:P0.3.v.0",
    "vault 0 sp=s:P0.3.v.0,s:P1.9.v.1@own",
    "vault 0 sp=s:P1.9.v.1,s:P2.9.v.1,s:P0.3.v.0",
    "vault 0 sp=s:P0.3.v.0,s:P1.9.v.1,s:P0.5.v.2",
    "vault 0 sp=s:P0.3.n.0,s:P1.9.v.1,o:P0.5.v.2",
    "vault 1 sp=s:P1.4.v.1,s:P0.18446744073709551615.v.0",
    "vaultperm 0 sp=s:P0.3.v.0,s:P1.9.v.1,s:P0.5.v.2",
    "vaultperm 2 sp=s:P2.2.v.0,s:P0.9.v.1,s:P1.9.n.1,s:P2.7.i.2",
    // ONE holder answers the vault key with a record of another kind (visiting order = listed order): a foreign validly
    // signed register first (rejected by the key check of the Register arm since the fix), a single transaction first
    "vault 0 sp=r:R0.v,s:P0.3.v.0",
    "vault 0 sp=r:R0.v,s:P0.3.v.0,s:P0.3.v.0@own",
    "vault 0 sp=r:R0.w,s:P0.3.v.0",
    "vault 0 sp=s:P0.3.v.0,r:R0.v",
    "vault 0 sp=t:T1,s:P0.3.v.0",
    "vault 0 sp=s:P0.3.v.0,t:T1+2",
    "vault 0 sp=r:R1.v,t:T1+2,s:P0.3.v.0,s:P0.5.v.1",
    "vault 0 ok=r:R0.v",
    "vault 0 ok=t:T1+2",
    "vault 0 ok=s:R0.v",
    "chunk g0 sp=r:R0.v,c:g0",
    "chunk g0 sp=t:T1+2,c:g0",
    "chunk g0 ok=t:T1",
    "vaultperm 0 sp=r:R0.v,s:P0.3.v.0,s:P0.5.v.1",
    // the content type is outside the signature: what the holder puts there is what the caller gets (counted, K-k-content-type-unsigned)
    "vault 0 ok=s:P0.3.v.0.7",
    "vault 0 ok=s:P0.3.v.0.9",
    "vault 0 sp=s:P0.3.v.0.9,s:P0.2.v.1",
    // K-k-wrongkind-tx-dictates (counted): a Transaction record with two transactions sorts first and dictates the kind
    "vault 0 sp=t:T1+2,s:P0.3.v.0",
    "vault 0 sp=t:T1,t:T2,s:P0.3.v.0,s:P0.3.v.0@own",
    // the write path's read: a new vault only on RecordNotFound
    "vaultwrite 0 nf",
    "vaultwrite 0 to",
    "vaultwrite 0 km",
    "vaultwrite 0 nc=s:P0.3.v.0",
    "vaultwrite 0 ok=s:P0.3.v.0",
    "vaultwrite 0 ok=s:P1.3.v.0",
    "vaultwrite 0 ok=s:P0.3.n.0",
    "vaultwrite 0 ok=s:J",
    "vaultwrite 0 sp=s:P0.3.v.0,s:P0.5.v.1",
    "vaultwrite 0 sp=s:P0.3.n.0,s:P1.5.v.1",
    // data with repeated content: several data-map entries name one address
    "data 3 o=0.0.0 m=ok=c:m3 e0=ok=c:e3.0 e1=ok=c:e3.0 e2=ok=c:e3.0",
    "data 3 o=2.1.0 m=ok=c:m3 e0=ok=c:e3.0 e1=nf e2=nf",
    "data 4 o=0.1.0 m=ok=c:m4 e0=ok=c:e4.0 e1=ok=c:e4.0 e2=ok=c:e4.0",
    "data 5 o=1.0.0 m=ok=c:m5 e0=ok=c:e5.0 e1=ok=c:e5.1 e2=ok=c:e5.2",
    "data 5 o=0.0.0 m=ok=c:m5 e0=ok=c:e5.0 e1=ok=c:e3.0 e2=ok=c:e5.2",
    "data 3 o=0.0.0 m=ok=c:m3 e0=ok=c:e4.0 e1=ok=c:e3.0 e2=ok=c:e3.0",
    "data 3 o=0.0.0 m=ok=c:m4@own e0=ok=c:e3.0 e1=ok=c:e3.0 e2=ok=c:e3.0",
];

fn main() {
    let args = common::parse_args();
    let mut out = Out::new(&args.out);
    // start-up assertions (chunk classes of the data sets) must be loud
    let w = World::new();
    std::panic::set_hook(Box::new(|_| {}));
    let rt = tokio::runtime::Builder::new_current_thread().enable_all().build().expect("runtime");
    STRICT.store(args.replay.is_some(), std::sync::atomic::Ordering::Relaxed);
    let lines: Vec<String> = match &args.replay {
        Some(p) => common::read_lines(p),
        None => {
            let mut rng = Rng::new(args.seed);
            let mut v: Vec<String> = CORPUS.iter().map(|s| s.to_string()).collect();
            for _ in 0..args.n {
                v.push(gen_case(&mut rng));
            }
            v
        }
    };
    for line in &lines {
        if line.starts_with("vaultperm ") {
            let res = exec_vaultperm(&w, &rt, line, &mut out);
            out.count(&format!("vaultperm:{}", if res.contains(" | ") { "varies" } else { res.split(' ').next().unwrap_or("?") }));
            out.nontrivial_case(line);
            out.line(line.clone(), res);
            continue;
        }
        let raw = exec(&w, &rt, line);
        let (res, rehash_bad) = match raw.strip_suffix(" #rehash=bad") {
            Some(r) => (r.to_string(), true),
            None => (raw, false),
        };
        if rehash_bad {
            out.oracle_fail(
                "data-rehash",
                line,
                &format!("data_get_public returned `{res}`: bytes that do not self-encrypt back to the requested data address"),
            );
        }
        let ws: Vec<&str> = line.split_whitespace().collect();
        let op = ws.first().copied().unwrap_or("?");
        let cls = res.split(' ').take(if res.starts_with("err") { 2 } else { 1 }).collect::<Vec<_>>().join("-");
        out.count(&format!("{op}:{cls}"));
        if let Some(r) = ws.get(if op == "data" { 3 } else { 2 }) {
            out.count(&format!("{op}:reply:{}", r.trim_start_matches("m=").split('=').next().unwrap_or("?")));
        }
        out.nontrivial_case(line);
        oracle(&w, line, &res, &mut out);
        out.line(line.clone(), res);
    }
    out.notes.push(format!(
        "clientread: real autonomi::Client over a harness-answered Network; {} corpus lines first; data sets of 3 chunks; pad data encrypted to the requested key",
        CORPUS.len()
    ));
    out.finish();
}
