//! C09: records replicate to in-range neighbours and replicas converge. 2-3 REAL nodes wired in-process
//! (see `replication/net.rs` for what is real and what is glue); the harness is transport and scheduler.
//!
//! Line protocol (inputs + choice witnesses only; peers: 0..2 nodes, >= 10 strangers; key = 3*id + space):
//!   new <N>                         fresh history with N nodes
//!   rt <i> <p:d,...|->              routing table of node i: peers with their distance to i, ascending (distances
//!                                   computed here with sha2 + XOR); output: the real `get_closest_k_value_local_peers`
//!   kd <i> <k:d,...>                distances of the keys to node i (model data only)
//!   seed <i> <k> <content> c=<w>    `LocalSwarmCmd::PutLocalRecord` at node i (what an accepted upload ends with)
//!   range <i> <d>                   the run loop's distance-range assignment (record store + fetcher)
//!   tick <i> <secs>                 simulated time passes at node i (fetcher deadlines, replication clocks)
//!   interval <i>                    `LocalSwarmCmd::TriggerIntervalReplication` at node i
//!   forge <from> <to> <k=T,...>     a `Cmd::Replicate` claiming holder `from` put on the wire towards node `to`
//!   spoof <from> <h> <to> <k=T,...> a `Cmd::Replicate` SENT BY peer `from` whose `holder` field claims peer `h`
//!   deliver <m> c=<w> | drop <m> | dup <m>     transport decisions for wire message m
//!   settled                         dump of every node's records (after fair rounds: the convergence oracle runs)
//!   dump                            same dump without the oracle
//! `c=<w>`: choice witness = the `(holder, key)` list the real fetcher scheduled, with record types: `h:k:T,...|-`.
//! Output per op: see `fmt_*` below; node view = `n<i> idx=<k=type/content,..> tbf=<k:T:h,..> ogf=<k:T:h,..>`.
#[path = "replication/net.rs"]
mod net;
#[path = "replication/world.rs"]
mod world;

use ant_networking::verif::{event as hook, LocalSwarmCmd};
use ant_protocol::messages::Query;
use ant_protocol::storage::{RecordHeader, RecordKind, RecordType};
use ant_protocol::NetworkAddress;
use common::{Out, Rng};
use libp2p::kad::{Record, RecordKey};
use libp2p::PeerId;
use net::*;
use num_bigint::BigUint;
use std::collections::{BTreeMap, BTreeSet, HashMap};
use std::panic::{catch_unwind, AssertUnwindSafe};
use std::time::Duration;
use tokio::sync::oneshot;
use world::*;

const K_VALUE: usize = 20;
const CLOSE_GROUP: usize = 5;
/// the property's reading of "periodic": a trigger inside this many seconds of the previous one may be skipped
const MIN_INTERVAL_S: u64 = 30;
/// a target that received a list less than this many seconds ago need not be served again
const TARGET_TIMEOUT_S: u64 = 45;

struct Universe {
    peer_ids: HashMap<PeerId, u64>,
    /// per node: every known peer (other nodes + its closest strangers) with the distance to the node
    dists: Vec<BTreeMap<u64, BigUint>>,
    /// per node: its closest strangers, ascending
    close_strangers: Vec<Vec<u64>>,
    key_dists: Vec<BTreeMap<u64, BigUint>>,
}

impl Universe {
    fn new() -> Universe {
        let mut peer_ids = HashMap::new();
        let mut bytes: BTreeMap<u64, Vec<u8>> = BTreeMap::new();
        for i in 0..3u64 {
            peer_ids.insert(peer_id(i), i);
            bytes.insert(i, peer_id(i).to_bytes());
        }
        let pool: Vec<(u64, PeerId)> = (0..N_STRANGER_POOL).map(|j| (STRANGER_BASE + j, peer_id(STRANGER_BASE + j))).collect();
        let mut dists = vec![];
        let mut close_strangers = vec![];
        let mut key_dists = vec![];
        for i in 0..3u64 {
            let me = peer_id(i).to_bytes();
            let mut v: Vec<(BigUint, u64)> = pool.iter().map(|(id, p)| (xor_distance(&me, &p.to_bytes()), *id)).collect();
            v.sort();
            v.truncate(N_CLOSE_STRANGERS);
            let mut d = BTreeMap::new();
            for (dist, id) in &v {
                d.insert(*id, dist.clone());
            }
            for j in 0..3u64 {
                if j != i {
                    d.insert(j, xor_distance(&me, &peer_id(j).to_bytes()));
                }
            }
            close_strangers.push(v.iter().map(|(_, id)| *id).collect::<Vec<_>>());
            dists.push(d);
            let mut kd = BTreeMap::new();
            for k in 0..MAX_KEY {
                kd.insert(k, xor_distance(&me, &key_xorname(k)));
            }
            key_dists.push(kd);
        }
        for (id, p) in &pool {
            if close_strangers.iter().any(|c| c.contains(id)) {
                peer_ids.insert(*p, *id);
            }
        }
        Universe { peer_ids, dists, close_strangers, key_dists }
    }
}

struct Ctx {
    uni: Universe,
    sim: Option<Sim>,
    n: u64,
    /// harness-side view of each routing table (ascending by the independent distance)
    rts: Vec<Vec<u64>>,
    ranges: Vec<Option<BigUint>>,
    /// shadow of what each node has been seen to put locally: key -> bytes
    held: Vec<BTreeMap<u64, Vec<u8>>>,
    /// content tokens seeded anywhere in this history, per key
    seeded: BTreeMap<u64, Vec<Content>>,
    history: Vec<String>,
    lossy: bool,
    /// the history used a tick that leaves less than 5 s of real-time slack against a timing constant
    tight: bool,
    /// simulated seconds elapsed at each node (sum of its ticks)
    clock: Vec<u64>,
    /// node clock at its last periodic-replication trigger that was not inside the minimum interval
    last_trigger: Vec<Option<u64>>,
    /// per node: peer -> node clock when the peer last received a Replicate list from it
    served_at: Vec<BTreeMap<u64, u64>>,
    /// per node: key -> (node clock when a fetch of that key was lost, qualifying re-advertisements seen since its timeout)
    lost_fetch: Vec<BTreeMap<u64, (u64, u64)>>,
    slow_histories: u64,
    /// per node: fetches the node was seen to schedule and that the harness has not seen end:
    /// (holder, key, record-type token, node clock when scheduled)
    outstanding: Vec<Vec<(u64, u64, String, u64)>>,
}

fn join(v: Vec<String>) -> String {
    if v.is_empty() {
        "-".into()
    } else {
        v.join(",")
    }
}

fn independent_type(value: &[u8]) -> Option<RecordType> {
    let rec = Record { key: RecordKey::new(b"x"), value: value.to_vec(), publisher: None, expires: None };
    let h = RecordHeader::from_record(&rec).ok()?;
    Some(match h.kind {
        RecordKind::Chunk => RecordType::Chunk,
        RecordKind::Scratchpad => RecordType::Scratchpad,
        RecordKind::Register | RecordKind::Transaction => RecordType::NonChunk(xor_name::XorName(sha3(value))),
        _ => return None,
    })
}

impl Ctx {
    fn sim(&mut self) -> &mut Sim {
        self.sim.as_mut().expect("no history started")
    }

    fn local_record(&mut self, i: usize, k: u64) -> Option<Vec<u8>> {
        let (tx, mut rx) = oneshot::channel();
        let sim = self.sim();
        let _g = sim.rt.enter();
        let _ = hook::handle_local_cmd(&mut sim.nodes[i].driver, LocalSwarmCmd::GetLocalRecord { key: record_key(k), sender: tx });
        rx.try_recv().ok().flatten().map(|r| r.value)
    }

    fn index(&mut self, i: usize) -> Vec<(u64, RecordType)> {
        let (tx, mut rx) = oneshot::channel();
        let sim = self.sim();
        let _g = sim.rt.enter();
        let _ = hook::handle_local_cmd(&mut sim.nodes[i].driver, LocalSwarmCmd::GetAllLocalRecordAddresses { sender: tx });
        let m = rx.try_recv().unwrap_or_default();
        let mut v: Vec<(u64, RecordType)> =
            m.into_iter().map(|(a, t)| (sim.key_ids.get(&a.to_record_key().to_vec()).copied().unwrap_or(9999), t)).collect();
        v.sort_by_key(|(k, _)| *k);
        v
    }

    fn queue_str(&mut self, i: usize) -> (String, String) {
        let sim = self.sim();
        let (tbf, ogf) = hook::replication_fetcher_queues(&sim.nodes[i].driver);
        let f = |v: Vec<hook::FetcherEntry>, sim: &Sim| {
            let mut rows: Vec<(u64, String, u64)> = v
                .iter()
                .map(|(k, t, h, _)| {
                    let kn = sim.key_ids.get(&k.to_vec()).copied().unwrap_or(9999);
                    (kn, sim.book.type_token(kn, t), sim.peer_ids.get(h).copied().unwrap_or(9999))
                })
                .collect();
            rows.sort();
            join(rows.into_iter().map(|(k, t, h)| format!("{k}:{t}:{h}")).collect())
        };
        (f(tbf, sim), f(ogf, sim))
    }

    fn node_view(&mut self, i: usize) -> String {
        let idx = self.index(i);
        let mut parts = vec![];
        for (k, t) in idx {
            let content = match self.local_record(i, k) {
                Some(v) => describe(k, &v),
                None => "none".into(),
            };
            let tt = self.sim().book.type_token(k, &t);
            parts.push(format!("{k}={tt}/{content}"));
        }
        let (tbf, ogf) = self.queue_str(i);
        format!("n{i} idx={} tbf={tbf} ogf={ogf}", join(parts))
    }

    fn wire_str(&mut self, ids: &[u64]) -> String {
        let sim = self.sim();
        join(
            ids.iter()
                .map(|id| match sim.wire.get(id) {
                    Some(Msg::Rep { from, to, .. }) => format!("{id}:rep:{from}>{to}"),
                    Some(Msg::Get { from, to, key, .. }) => format!("{id}:get:{from}>{to}:{}", sim.kid_addr(key)),
                    Some(Msg::Rsp { from, to, key, .. }) => format!("{id}:rsp:{from}>{to}:{}", sim.kid_addr(key)),
                    None => format!("{id}:?"),
                })
                .collect(),
        )
    }

    /// scheduled list with record types recovered from the in-flight queue (the event carries none)
    fn sched_tokens(&mut self, i: usize, log: &StepLog, ogf_before: &BTreeSet<(u64, String, u64)>) -> Vec<String> {
        let sim = self.sim();
        let (_tbf, ogf) = hook::replication_fetcher_queues(&sim.nodes[i].driver);
        let mut fresh: Vec<(u64, String, u64)> = ogf
            .iter()
            .map(|(k, t, h, _)| {
                let kn = sim.key_ids.get(&k.to_vec()).copied().unwrap_or(9999);
                (kn, sim.book.type_token(kn, t), sim.peer_ids.get(h).copied().unwrap_or(9999))
            })
            .collect();
        // entries that were not in flight before the step first (an entry can leave and re-enter within one step)
        fresh.sort_by_key(|e| (ogf_before.contains(e), e.clone()));
        let mut out = vec![];
        for (bi, batch) in log.sched.iter().enumerate() {
            // `!`: the batch was returned to the `FetchCompleted` handler after a `PutLocalRecord` of the same step
            let mark = if log.sched_after_put.get(bi).copied().unwrap_or(false) { "!" } else { "" };
            for (pi, (h, k)) in batch.iter().enumerate() {
                let hn = sim.peer_ids.get(h).copied().unwrap_or(9999);
                let kn = sim.key_ids.get(&k.to_vec()).copied().unwrap_or(9999);
                let at_event = log.sched_types.get(bi).and_then(|b| b.get(pi)).cloned().flatten();
                let t = match fresh.iter().position(|(fk, _, fh)| *fk == kn && *fh == hn) {
                    Some(p) => {
                        let t = fresh.remove(p).1;
                        match &at_event {
                            Some(te) => sim.book.type_token(kn, te),
                            None => t,
                        }
                    }
                    None => match &at_event {
                        Some(te) => sim.book.type_token(kn, te),
                        None => "?".into(),
                    },
                };
                out.push(format!("{hn}:{kn}:{t}{mark}"));
            }
        }
        out
    }

    fn ogf_set(&mut self, i: usize) -> BTreeSet<(u64, String, u64)> {
        let sim = self.sim();
        let (_tbf, ogf) = hook::replication_fetcher_queues(&sim.nodes[i].driver);
        ogf.iter()
            .map(|(k, t, h, _)| {
                let kn = sim.key_ids.get(&k.to_vec()).copied().unwrap_or(9999);
                (kn, sim.book.type_token(kn, t), sim.peer_ids.get(h).copied().unwrap_or(9999))
            })
            .collect()
    }

    fn note_writes(&mut self, i: usize, out: &mut Out) {
        // refresh the shadow of node i from what it now serves for the keys it was seen to write
        let keys: Vec<u64> = self.index(i).into_iter().map(|(k, _)| k).collect();
        for k in keys {
            if let Some(v) = self.local_record(i, k) {
                self.sim().book.learn(k, &v);
                self.held[i].insert(k, v);
            } else {
                out.count("anomaly:indexed-but-unreadable");
            }
        }
    }
}

/// scheduled tokens as printed in the result line (the `!` marks belong to the choice witness only)
fn unmarked(sched: &[String]) -> Vec<String> {
    sched.iter().map(|t| t.trim_end_matches('!').to_string()).collect()
}

fn fail(out: &mut Out, ctx: &Ctx, clause: &str, what: String) {
    out.oracle_fail(clause, &ctx.history.join(" ; "), &what);
}

/// Oracle bookkeeping (C08 "every fetch leaves the in-flight set when the record arrives ... or times out, a timed-out
/// holder being reported"), independent of the model: what node `i` scheduled, wrote and reported in one step.
/// A reported holder must have a fetch that was scheduled at least FETCH_TIMEOUT ago and that the harness has not seen
/// end: the key was written, or a record of the ADVERTISED type arrived and was acceptable. The clause is restricted to
/// fetches whose served type equals the advertised one: a fetch whose holder serves another version by the time it is asked
/// (its copy changed after the advertisement) is completed under the served type only and stays registered when nothing is
/// written — known finding K-y-served-version-differs, counted below, such a report is "justified" here.
fn track_fetches(ctx: &mut Ctx, out: &mut Out, i: usize, sched: &[String], log: &StepLog, seeded_key: Option<u64>) {
    const FETCH_TIMEOUT_S: u64 = 20;
    let now = ctx.clock[i];
    // the prune runs first inside `next_keys_to_fetch`: judge the report against what was outstanding before this step
    let mut reported: Vec<u64> = log.failed.iter().map(|p| ctx.uni.peer_ids.get(p).copied().unwrap_or(9999)).collect();
    reported.sort();
    reported.dedup();
    for h in &reported {
        let justified = ctx.outstanding[i].iter().any(|(oh, _, _, t0)| oh == h && now >= *t0 + FETCH_TIMEOUT_S);
        out.count(if justified { "fail-report:justified" } else { "fail-report:unjustified" });
        if !justified {
            let what = format!(
                "node {i} reported holder {h} in FailedToFetchHolders at t={now}s, but every fetch it scheduled from {h} had its record arrive (and accepted) or its key written before FETCH_TIMEOUT; outstanding: {:?}",
                ctx.outstanding[i]
            );
            fail(out, ctx, "holder_not_reported_for_the_served_version", what);
        }
    }
    if !reported.is_empty() {
        ctx.outstanding[i].retain(|(_, _, _, t0)| now < *t0 + FETCH_TIMEOUT_S);
    }
    // a write of key k ends every fetch of k (`notify_about_new_put` removes in-flight entries by key)
    let mut written: Vec<u64> = log.writes.iter().filter_map(|w| w.strip_prefix('W').and_then(|r| r.split('=').next()).and_then(|k| k.parse().ok())).collect();
    written.extend(seeded_key);
    ctx.outstanding[i].retain(|(_, k, _, _)| !written.contains(k));
    for t in unmarked(sched) {
        let parts: Vec<&str> = t.splitn(3, ':').collect();
        if let [h, k, ty] = parts[..] {
            if let (Ok(h), Ok(k)) = (h.parse::<u64>(), k.parse::<u64>()) {
                ctx.outstanding[i].push((h, k, ty.to_string(), now));
            }
        }
    }
}

/// Would an honest node accept this fetched copy (`store_replicated_in_record` returns Ok)? Judged from the contents
/// alone: chunks and transaction sets always; a register when the local copy (if any) has the same base; a scratchpad
/// when its counter is higher than the local one. `None`: not judged.
fn acceptable(k: u64, fetched: &[u8], local: Option<&Vec<u8>>) -> Option<bool> {
    let f = parse_content(&describe(k, fetched))?;
    let l = match local {
        Some(v) => Some(parse_content(&describe(k, v))?),
        None => None,
    };
    Some(match (f, l) {
        (Content::Chunk, None) | (Content::Chunk, Some(Content::Chunk)) => true,
        (Content::Txs(_), None) | (Content::Txs(_), Some(Content::Txs(_))) => true,
        (Content::Reg { .. }, None) => true,
        (Content::Reg { alt, .. }, Some(Content::Reg { alt: a2, .. })) => alt == a2,
        (Content::Pad(_), None) => true,
        (Content::Pad(n), Some(Content::Pad(m))) => n > m,
        _ => return None,
    })
}

/// strip a trailing ` c=...` witness
fn strip_witness(line: &str) -> String {
    match line.rfind(" c=") {
        Some(p) => line[..p].to_string(),
        None => line.to_string(),
    }
}

fn exec(ctx: &mut Ctx, out: &mut Out, line: &str) {
    let base = strip_witness(line);
    let ws: Vec<&str> = base.split_whitespace().collect();
    if ws.first() == Some(&"new") {
        ctx.history.clear();
    }
    // the op being executed is part of the history an oracle failure reports
    ctx.history.push(base.clone());
    let r = catch_unwind(AssertUnwindSafe(|| exec_inner(ctx, out, &ws)));
    let (op, res) = match r {
        Ok(Some((witness, res))) => {
            let op = match witness {
                Some(w) => format!("{base} c={w}"),
                None => base.clone(),
            };
            (op, res)
        }
        Ok(None) => (base.clone(), "bad-op".to_string()),
        Err(_) => (base.clone(), "panic".to_string()),
    };
    if let Some(last) = ctx.history.last_mut() {
        *last = op.clone();
    }
    out.line(op, res);
}

/// Shape of the `Cmd::Replicate` arm of `handle_req_resp_events` (a `request_response::Event` cannot be built outside
/// libp2p, so the arm is played here): taken from what rs2lean read from the current source
/// (`lean/SafeNet/Gen/Replication.lean`, regenerated by every check run before this binary starts).
#[derive(Clone, Copy, PartialEq, Debug)]
enum ArmShape {
    Unconditional,
    IfHolderIsSender,
    IfHolderIsNotSender,
}

fn arm_shape() -> ArmShape {
    static SHAPE: std::sync::OnceLock<ArmShape> = std::sync::OnceLock::new();
    *SHAPE.get_or_init(|| {
        let path = concat!(env!("CARGO_MANIFEST_DIR"), "/../../lean/SafeNet/Gen/Replication.lean");
        let text = std::fs::read_to_string(path).unwrap_or_default();
        let flag = |name: &str| -> Option<bool> {
            text.lines().find_map(|l| l.strip_prefix(&format!("def {name} : Bool := "))).map(|v| v.trim() == "true")
        };
        match (flag("replicateChecksSender"), flag("replicateSenderMustEqual")) {
            (Some(false), _) => ArmShape::Unconditional,
            (Some(true), Some(true)) => ArmShape::IfHolderIsSender,
            (Some(true), Some(false)) => ArmShape::IfHolderIsNotSender,
            _ => panic!("cannot read the shape of the Cmd::Replicate arm from {path}"),
        }
    })
}

fn num(s: &str) -> Option<u64> {
    if s.is_empty() || s.len() > 4 || !s.bytes().all(|b| b.is_ascii_digit()) {
        return None;
    }
    s.parse().ok()
}

fn exec_inner(ctx: &mut Ctx, out: &mut Out, ws: &[&str]) -> Option<(Option<String>, String)> {
    match ws {
        ["new", n] => {
            let n = num(n)?;
            if !(1..=3).contains(&n) {
                return None;
            }
            if let Some(old) = ctx.sim.take() {
                let limit = if ctx.tight { 800 } else { 3500 };
                if old.started.elapsed() > Duration::from_millis(limit) {
                    ctx.slow_histories += 1;
                }
                old.shutdown();
            }
            ctx.sim = Some(Sim::new(n, ctx.uni.peer_ids.clone()));
            ctx.n = n;
            ctx.rts = vec![vec![]; n as usize];
            ctx.ranges = vec![None; n as usize];
            ctx.held = vec![BTreeMap::new(); n as usize];
            ctx.seeded.clear();
            ctx.lossy = false;
            ctx.tight = false;
            ctx.clock = vec![0; n as usize];
            ctx.last_trigger = vec![None; n as usize];
            ctx.served_at = vec![BTreeMap::new(); n as usize];
            ctx.lost_fetch = vec![BTreeMap::new(); n as usize];
            ctx.outstanding = vec![vec![]; n as usize];
            out.count("history");
            Some((None, "ok".into()))
        }
        ["rt", i, list] => {
            let i = num(i)? as usize;
            if i >= ctx.n as usize || !ctx.rts[i].is_empty() {
                return None;
            }
            let mut peers = vec![];
            if *list != "-" {
                for e in list.split(',') {
                    let (p, d) = e.split_once(':')?;
                    let p = num(p)?;
                    // the distance in the line must be the independently computed one
                    if ctx.uni.dists[i].get(&p).map(|x| x.to_string()) != Some(d.to_string()) {
                        return None;
                    }
                    peers.push(p);
                }
            }
            let sim = ctx.sim.as_mut()?;
            {
                let _g = sim.rt.enter();
                for p in &peers {
                    if !hook::add_address(&mut sim.nodes[i].driver, &peer_id(*p), dummy_addr(*p)) {
                        return Some((None, format!("rt-insert-failed {p}")));
                    }
                }
            }
            ctx.rts[i] = peers;
            let sim = ctx.sim.as_mut()?;
            let close = {
                let _g = sim.rt.enter();
                hook::closest_k_value_local_peers(&mut sim.nodes[i].driver)
            };
            let s = join(close.iter().map(|p| sim.pid(p)).collect());
            Some((None, format!("close={s}")))
        }
        ["kd", i, _list] => {
            let i = num(i)? as usize;
            if i >= ctx.n as usize {
                return None;
            }
            Some((None, "ok".into()))
        }
        ["seed", i, k, c] => {
            let i = num(i)? as usize;
            let k = num(k)?;
            let content = parse_content(c)?;
            if i >= ctx.n as usize || k >= MAX_KEY || !fits(k, &content) {
                return None;
            }
            let rec = build_record(k, &content);
            ctx.seeded.entry(k).or_default().push(content.clone());
            let before = ctx.ogf_set(i);
            {
                let sim = ctx.sim();
                sim.book.learn(k, &rec.value);
                let _g = sim.rt.enter();
                let _ = hook::handle_local_cmd(&mut sim.nodes[i].driver, LocalSwarmCmd::PutLocalRecord { record: rec });
            }
            let log = ctx.sim().pump(i);
            ctx.note_writes(i, out);
            let sched = ctx.sched_tokens(i, &log, &before);
            track_fetches(ctx, out, i, &sched, &log, Some(k));
            out.count(&format!("seed:{}", &c[..1]));
            let res = format!(
                "seed sched={} fail={} | {} | wire+={}",
                join(unmarked(&sched)),
                fail_str(ctx, &log),
                ctx.node_view(i),
                ctx.wire_str(&log.new_msgs)
            );
            Some((Some(join(sched)), res))
        }
        ["range", i, d] => {
            let i = num(i)? as usize;
            if i >= ctx.n as usize {
                return None;
            }
            let big = BigUint::parse_bytes(d.as_bytes(), 10)?;
            if big.bits() > 256 {
                return None;
            }
            let u = ant_evm::U256::from_str_radix(d, 10).ok()?;
            let sim = ctx.sim();
            hook::set_distance_range(&mut sim.nodes[i].driver, u);
            ctx.ranges[i] = Some(big);
            out.count("range");
            Some((None, "ok".into()))
        }
        ["tick", i, secs] => {
            let i = num(i)? as usize;
            let secs = num(secs)?;
            if i >= ctx.n as usize {
                return None;
            }
            let sim = ctx.sim();
            let ok = hook::age_replication(&mut sim.nodes[i].driver, Duration::from_secs(secs));
            ctx.clock[i] += secs;
            if ![25, 50, 1000].contains(&secs) {
                ctx.tight = true;
            }
            out.count("tick");
            Some((None, if ok { "ok".into() } else { "age-failed".into() }))
        }
        ["interval", i] => {
            let i = num(i)? as usize;
            if i >= ctx.n as usize {
                return None;
            }
            {
                let sim = ctx.sim();
                let _g = sim.rt.enter();
                let _ = hook::handle_local_cmd(&mut sim.nodes[i].driver, LocalSwarmCmd::TriggerIntervalReplication);
            }
            let log = ctx.sim().pump(i);
            let mut targets = vec![];
            let mut lists: Vec<String> = vec![];
            for (p, keys) in &log.reps {
                targets.push(ctx.sim().pid(p));
                let mut ks: Vec<(u64, String)> = keys
                    .iter()
                    .map(|(a, t)| {
                        let k = ctx.sim.as_ref().map(|s| s.key_ids.get(&a.to_record_key().to_vec()).copied().unwrap_or(9999)).unwrap_or(9999);
                        (k, ctx.sim.as_ref().map(|s| s.book.type_token(k, t)).unwrap_or_default())
                    })
                    .collect();
                ks.sort();
                lists.push(join(ks.into_iter().map(|(k, t)| format!("{k}={t}")).collect()));
            }
            // replication candidates computed here: all known peers within `<=` the range when at least CLOSE_GROUP of them
            // are, else the CLOSE_GROUP closest
            let rt_now = ctx.rts[i].clone();
            let cand_now: Vec<u64> = match &ctx.ranges[i] {
                Some(r) => {
                    let inr: Vec<u64> = rt_now.iter().copied().filter(|p| ctx.uni.dists[i].get(p).map(|d| d <= r).unwrap_or(false)).collect();
                    if inr.len() >= CLOSE_GROUP {
                        inr
                    } else {
                        rt_now.iter().copied().take(CLOSE_GROUP).collect()
                    }
                }
                None => rt_now.iter().copied().take(CLOSE_GROUP).collect(),
            };
            // oracle (2b): a periodic replication that fires at least MIN_REPLICATION_INTERVAL after the node's previous
            // trigger (or is its first), on a node that holds records, reaches EVERY replication candidate that has not
            // received a list from it during the last REPLICATION_TIMEOUT — in particular the peer sitting exactly on the
            // range boundary. (Simulated time; the constants are the property's reading of "periodic": 30 s / 45 s.)
            let now = ctx.clock[i];
            let inside_min_interval = matches!(ctx.last_trigger[i], Some(t) if now - t < MIN_INTERVAL_S);
            if inside_min_interval {
                out.count("interval:inside-min-interval");
            } else {
                ctx.last_trigger[i] = Some(now);
                if !ctx.held[i].is_empty() {
                    let due: Vec<String> = cand_now
                        .iter()
                        .filter(|c| !matches!(ctx.served_at[i].get(c), Some(t) if now - *t < TARGET_TIMEOUT_S))
                        .map(|c| c.to_string())
                        .collect();
                    if targets_of(ctx, &log) != due {
                        let what = format!(
                            "node {i} holds records and replicated to [{}]; its replication candidates not served in the last {TARGET_TIMEOUT_S} s are [{}] (range {:?})",
                            targets_of(ctx, &log).join(","),
                            due.join(","),
                            ctx.ranges[i].as_ref().map(|r| r.to_string())
                        );
                        fail(out, ctx, "advertises_everything", what);
                    }
                    out.count(if due.len() == cand_now.len() { "interval:all-candidates-due" } else { "interval:some-candidates-recently-served" });
                    if let Some(r) = &ctx.ranges[i] {
                        out.count("interval:with-range");
                        if rt_now.iter().any(|p| ctx.uni.dists[i].get(p) == Some(r)) && cand_now.len() > CLOSE_GROUP {
                            out.count("interval:boundary-peer-in-range");
                        }
                    }
                }
            }
            for (p, _) in &log.reps {
                if let Some(id) = ctx.uni.peer_ids.get(p) {
                    ctx.served_at[i].insert(*id, now);
                }
            }
            // oracle (2): every list is exactly the held index, with the record type the held bytes determine
            if !log.reps.is_empty() {
                let mut expect: Vec<(u64, RecordType)> =
                    ctx.held[i].iter().filter_map(|(k, v)| independent_type(v).map(|t| (*k, t))).collect();
                expect.sort_by_key(|(k, _)| *k);
                for (p, keys) in &log.reps {
                    let mut got: Vec<(u64, RecordType)> = keys
                        .iter()
                        .map(|(a, t)| (ctx.sim.as_ref().and_then(|s| s.key_ids.get(&a.to_record_key().to_vec()).copied()).unwrap_or(9999), t.clone()))
                        .collect();
                    got.sort_by_key(|(k, _)| *k);
                    if got != expect {
                        let what = format!("node {i} advertised {} entries to {:?}, holds {} records (or a record type differs from the held bytes)", got.len(), ctx.sim.as_ref().map(|s| s.pid(p)), expect.len());
                        fail(out, ctx, "advertises_everything", what);
                    }
                }
                // targets are replication candidates: closest CLOSE_GROUP peers, or all peers within the range
                let rt = ctx.rts[i].clone();
                let cand: Vec<u64> = match &ctx.ranges[i] {
                    Some(r) => {
                        let inr: Vec<u64> = rt.iter().copied().filter(|p| ctx.uni.dists[i].get(p).map(|d| d <= r).unwrap_or(false)).collect();
                        if inr.len() >= CLOSE_GROUP {
                            inr
                        } else {
                            rt.iter().copied().take(CLOSE_GROUP).collect()
                        }
                    }
                    None => rt.iter().copied().take(CLOSE_GROUP).collect(),
                };
                for t in &targets {
                    if !cand.iter().any(|c| c.to_string() == *t) {
                        fail(out, ctx, "advertises_everything", format!("node {i} replicated to {t}, not a replication candidate"));
                    }
                }
                out.count("interval:sent");
            } else {
                out.count("interval:none");
            }
            let listing = if lists.is_empty() {
                "-".to_string()
            } else if lists.iter().all(|l| *l == lists[0]) {
                lists[0].clone()
            } else {
                lists.join("|")
            };
            let res = format!("interval to={} keys={} | wire+={}", join(targets), listing, ctx.wire_str(&log.new_msgs));
            Some((None, res))
        }
        ["forge", _, _, _] | ["spoof", _, _, _, _] => {
            // forge: the holder field names the sender; spoof: it names somebody else
            let (from, claimed, to, list) = match ws {
                ["forge", from, to, list] => (num(from)?, num(from)?, num(to)?, *list),
                ["spoof", from, h, to, list] => (num(from)?, num(h)?, num(to)?, *list),
                _ => return None,
            };
            if to >= ctx.n || !(ctx.uni.peer_ids.values().any(|p| *p == from)) || !(ctx.uni.peer_ids.values().any(|p| *p == claimed)) {
                return None;
            }
            let mut keys = vec![];
            if list != "-" {
                for e in list.split(',') {
                    let (k, t) = e.split_once('=')?;
                    let k = num(k)?;
                    if k >= MAX_KEY {
                        return None;
                    }
                    let ty = parse_type(k, t)?;
                    if let Some(c) = parse_content(t) {
                        if matches!(c, Content::Txs(_) | Content::Reg { .. }) {
                            let v = build_value(k, &c);
                            ctx.sim().book.learn(k, &v);
                        }
                    }
                    keys.push((NetworkAddress::from_record_key(&record_key(k)), ty));
                }
            }
            let sim = ctx.sim();
            let id = sim.next_id;
            sim.next_id += 1;
            sim.wire.insert(id, Msg::Rep { from, to, holder: NetworkAddress::from_peer(peer_id(claimed)), keys });
            out.count(if claimed == from { "forge" } else { "spoof" });
            Some((None, format!("m{id}")))
        }
        ["dup", m] => {
            let m = num(m)?;
            let sim = ctx.sim();
            let copy = match sim.wire.get(&m) {
                Some(Msg::Rep { from, to, holder, keys }) => Msg::Rep { from: *from, to: *to, holder: holder.clone(), keys: keys.clone() },
                _ => return None,
            };
            let id = sim.next_id;
            sim.next_id += 1;
            sim.wire.insert(id, copy);
            out.count("dup");
            Some((None, format!("m{id}")))
        }
        ["drop", m] => {
            let m = num(m)?;
            let msg = ctx.sim().wire.remove(&m)?;
            ctx.lossy = true;
            match msg {
                Msg::Rep { .. } => {
                    out.count("drop:rep");
                    Some((None, "drop".into()))
                }
                Msg::Get { from, reply, key, .. } | Msg::Rsp { to: from, reply, key, .. } => {
                    out.count("drop:fetch");
                    let i = from as usize;
                    if let Ok(kn) = ctx.sim().kid_addr(&key).parse::<u64>() {
                        let now = ctx.clock[i];
                        ctx.lost_fetch[i].insert(kn, (now, 0));
                    }
                    let before = ctx.ogf_set(i);
                    if let Some(tx) = reply {
                        let _ = tx.send(Err(timeout_error()));
                    }
                    let log = ctx.sim().pump(i);
                    ctx.note_writes(i, out);
                    let sched = ctx.sched_tokens(i, &log, &before);
                    track_fetches(ctx, out, i, &sched, &log, None);
                    let res = format!(
                        "drop net={} sched={} | {} | wire+={}",
                        join(log.netgets.clone()),
                        join(unmarked(&sched)),
                        ctx.node_view(i),
                        ctx.wire_str(&log.new_msgs)
                    );
                    Some((Some(join(sched)), res))
                }
            }
        }
        ["deliver", m] => {
            let m = num(m)?;
            let msg = ctx.sim().wire.remove(&m)?;
            match msg {
                Msg::Rep { from, to, holder, keys } => {
                    let i = to as usize;
                    let view_before = ctx.node_view(i);
                    let before = ctx.ogf_set(i);
                    let holder_id = holder.as_peer_id().and_then(|p| ctx.uni.peer_ids.get(&p).copied());
                    // the request's authenticated sender, as libp2p hands it to handle_req_resp_events
                    let sender_peer = peer_id(from);
                    let adv: Vec<(u64, RecordType)> = keys
                        .iter()
                        .map(|(a, t)| (ctx.sim.as_ref().and_then(|s| s.key_ids.get(&a.to_record_key().to_vec()).copied()).unwrap_or(9999), t.clone()))
                        .collect();
                    {
                        // the `Cmd::Replicate` arm, played as rs2lean read it from the source (ArmShape): the Ok response is
                        // queued either way (not observed here); the request's holder and keys are handed on unconditionally,
                        // or only `if holder.as_peer_id() == Some(peer)` (resp. `!=`)
                        let acts = match arm_shape() {
                            ArmShape::Unconditional => true,
                            ArmShape::IfHolderIsSender => holder.as_peer_id() == Some(sender_peer),
                            ArmShape::IfHolderIsNotSender => holder.as_peer_id() != Some(sender_peer),
                        };
                        let sim = ctx.sim();
                        let _g = sim.rt.enter();
                        if acts {
                            hook::request_response::add_keys_to_replication_fetcher(&mut sim.nodes[i].driver, holder, keys);
                        }
                    }
                    let log = ctx.sim().pump(i);
                    let sched = ctx.sched_tokens(i, &log, &before);
                    track_fetches(ctx, out, i, &sched, &log, None);
                    let view = ctx.node_view(i);
                    // oracle (3): a holder outside the K closest (self + K-1 nearest known peers), or self, changes nothing
                    let close = match holder_id {
                        Some(h) => h != to && ctx.rts[i].iter().take(K_VALUE - 1).any(|p| *p == h),
                        None => false,
                    };
                    if !close {
                        out.count("rep:not-close");
                        if view != view_before || !log.new_msgs.is_empty() || !log.sched.is_empty() {
                            let what = format!("node {to} acted on a replication list from {holder_id:?}, which is not among its {K_VALUE} closest peers (or is itself)");
                            fail(out, ctx, "only_close_holders_heard", what);
                        }
                    } else {
                        out.count(if log.sched.is_empty() { "rep:close:nothing-new" } else { "rep:close:scheduled" });
                    }
                    // oracle (3'): the property speaks of the PEER an advertisement comes from. A list whose sender is
                    // outside the K closest (or is the node itself) changes nothing — whatever its holder field claims
                    let sender_close = from != to && ctx.rts[i].iter().take(K_VALUE - 1).any(|p| *p == from);
                    if holder_id != Some(from) {
                        out.count(if sender_close { "rep:spoofed:close-sender" } else { "rep:spoofed:far-sender" });
                    }
                    if !sender_close && (view != view_before || !log.new_msgs.is_empty() || !log.sched.is_empty()) {
                        let what = format!(
                            "node {to} acted on a replication list sent by peer {from}, which is not among its {K_VALUE} closest peers (or is itself); the list's holder field claims {holder_id:?}"
                        );
                        fail(out, ctx, "only_close_sender_heard", what);
                    }
                    // oracle (1b) eventual fetch: a fetch of key k was lost (request or reply dropped) and FETCH_TIMEOUT has passed
                    // at the requester. From then on, single-key advertisements of k by a heard holder that really holds k
                    // (with the advertised type) must get k requested again: the first may be spent on clearing the dead
                    // in-flight entry, the SECOND must schedule the fetch — unless the node holds that version by now.
                    let scheduled_keys: Vec<u64> = log
                        .sched
                        .iter()
                        .flatten()
                        .filter_map(|(_, k)| ctx.sim.as_ref().and_then(|s| s.key_ids.get(&k.to_vec()).copied()))
                        .collect();
                    for k in &scheduled_keys {
                        ctx.lost_fetch[i].remove(k);
                    }
                    if close && adv.len() == 1 {
                        let (k, t) = adv[0].clone();
                        let holder_has = holder_id
                            .and_then(|h| ctx.held.get(h as usize).and_then(|m| m.get(&k)).cloned())
                            .map(|v| independent_type(&v) == Some(t.clone()))
                            .unwrap_or(false);
                        let i_has_same = ctx.held[i].get(&k).map(|v| independent_type(v) == Some(t.clone())).unwrap_or(false);
                        if let Some((at, seen)) = ctx.lost_fetch[i].get(&k).copied() {
                            if holder_has && !i_has_same && ctx.clock[i] >= at + 25 {
                                let seen = seen + 1;
                                ctx.lost_fetch[i].insert(k, (at, seen));
                                out.count(&format!("eventual-fetch:readvertised-{}", seen.min(3)));
                                if seen >= 2 {
                                    let what = format!(
                                        "node {to} lost its fetch of key {k} at t={at}s; {} s later the {seen}. single-key advertisement of that record by heard holder {} (who holds it) still does not get it requested again",
                                        ctx.clock[i] - at,
                                        holder_id.unwrap_or(9999)
                                    );
                                    fail(out, ctx, "immutable_replicates", what);
                                }
                            }
                        }
                    }
                    let res = format!("rep sched={} fail={} | {} | wire+={}", join(unmarked(&sched)), fail_str(ctx, &log), view, ctx.wire_str(&log.new_msgs));
                    out.nontrivial_case(&format!("{} -> {}", ctx.history.last().cloned().unwrap_or_default(), res));
                    Some((Some(join(sched)), res))
                }
                Msg::Get { from, to, requester, key, reply } => {
                    if to >= ctx.n {
                        // a stranger never answers
                        ctx.sim().wire.insert(m, Msg::Get { from, to, requester, key, reply });
                        return None;
                    }
                    let h = to as usize;
                    // the holder's real `Node::handle_network_event` (arm `QueryRequestReceived`): it spawns `handle_query` and
                    // hands the answer to `Network::send_response`; the responder is the one a request to self would carry
                    // (`MsgResponder::FromSelf`), so the real `SendResponse` handler puts the answer into this oneshot
                    let (rtx, mut rrx) = oneshot::channel();
                    {
                        let sim = ctx.sim();
                        let _g = sim.rt.enter();
                        let q = Query::GetReplicatedRecord { requester, key: key.clone() };
                        sim.nodes[h].node.handle_network_event(ant_networking::NetworkEvent::QueryRequestReceived {
                            query: q,
                            channel: ant_networking::MsgResponder::FromSelf(Some(rtx)),
                        });
                    }
                    let _ = ctx.sim().pump(h);
                    let response = match rrx.try_recv() {
                        Ok(Ok(r)) => Some(r),
                        _ => None,
                    };
                    let Some(response) = response else { return Some((None, "get stuck".into())) };
                    let kn = ctx.sim().kid_addr(&key).parse::<u64>().unwrap_or(9999);
                    let content = get_response_content(&response);
                    let tok = match &content {
                        Some(v) => {
                            ctx.sim().book.learn(kn, v);
                            describe(kn, v)
                        }
                        None => "none".into(),
                    };
                    out.count(if content.is_some() { "get:found" } else { "get:notfound" });
                    let sim = ctx.sim();
                    let id = sim.next_id;
                    sim.next_id += 1;
                    sim.wire.insert(id, Msg::Rsp { from: to, to: from, key, response, reply });
                    let res = format!("get rsp={tok} | wire+={}", ctx.wire_str(&[id]));
                    Some((None, res))
                }
                Msg::Rsp { from, to, key, response, reply } => {
                    let i = to as usize;
                    let kn = ctx.sim().kid_addr(&key).parse::<u64>().unwrap_or(9999);
                    let had = ctx.local_record(i, kn);
                    let content = get_response_content(&response);
                    let before = ctx.ogf_set(i);
                    if let Some(tx) = reply {
                        let _ = tx.send(Ok(response));
                    }
                    let log = ctx.sim().pump(i);
                    ctx.note_writes(i, out);
                    let sched = ctx.sched_tokens(i, &log, &before);
                    // oracle (C08, arrival): the record an honest holder serves (the bytes it holds) arrived and an honest
                    // node accepts it ⇒ the fetch is over: no in-flight entry for (key, the type the holder advertised for
                    // these bytes) remains at the requester, whether or not the copy changed anything
                    let mut arrived_ok = false;
                    if let Some(v) = &content {
                        let holder_holds = ctx.held.get(from as usize).and_then(|h| h.get(&kn)) == Some(v);
                        if holder_holds {
                            match acceptable(kn, v, had.as_ref()) {
                                Some(true) => {
                                    arrived_ok = true;
                                    let changed = ctx.local_record(i, kn) != had;
                                    out.count(if changed { "rsp:accepted:stored" } else { "rsp:accepted:nothing-to-store" });
                                    if let Some(t) = independent_type(v) {
                                        let tt = ctx.sim().book.type_token(kn, &t);
                                        let left: Vec<(u64, String, u64)> = ctx.ogf_set(i).into_iter().filter(|(k, ty, _)| *k == kn && *ty == tt).collect();
                                        if !left.is_empty() {
                                            let what = format!(
                                                "node {to} fetched key {kn} ({tt}) from holder {from}; the record arrived and is acceptable ({}), yet the fetch stays in flight: {left:?}",
                                                if changed { "stored" } else { "nothing to store" }
                                            );
                                            fail(out, ctx, "arrived_record_leaves_inflight", what);
                                        }
                                        ctx.outstanding[i].retain(|(_, k, ty, _)| !(*k == kn && *ty == tt));
                                        // K-y: the holder advertised another version than it served and nothing was written:
                                        // the fetch registered under the advertised type is not completed by this arrival
                                        if !changed && ctx.outstanding[i].iter().any(|(h, k, ty, _)| *h == from && *k == kn && *ty != tt) {
                                            out.count("known:K-y-served-version-differs");
                                        }
                                    }
                                }
                                Some(false) => out.count("rsp:not-acceptable"),
                                None => out.count("rsp:acceptability-not-judged"),
                            }
                        }
                    }
                    let _ = arrived_ok;
                    track_fetches(ctx, out, i, &sched, &log, None);
                    let now_has = ctx.local_record(i, kn);
                    // oracle (1): a chunk fetched through replication by a node that lacked it is now held, byte-identical
                    if let Some(v) = &content {
                        if independent_type(v) == Some(RecordType::Chunk) && describe(kn, v) == "C" && had.is_none() {
                            out.count("rsp:chunk-to-lacking-node");
                            let holder_bytes = ctx.held.get(from as usize).and_then(|h| h.get(&kn)).cloned();
                            if now_has.as_ref() != Some(v) || holder_bytes.as_ref() != Some(v) {
                                let what = format!("chunk {kn} served by node {from} was not stored byte-identically by node {to}");
                                fail(out, ctx, "immutable_replicates", what);
                            }
                        }
                    }
                    out.count(if content.is_some() { "rsp:record" } else { "rsp:notfound" });
                    let res = format!(
                        "rsp {} net={} sched={} fail={} | {} | wire+={}",
                        join(log.writes.clone()),
                        join(log.netgets.clone()),
                        join(unmarked(&sched)),
                        fail_str(ctx, &log),
                        ctx.node_view(i),
                        ctx.wire_str(&log.new_msgs)
                    );
                    out.nontrivial_case(&format!("{} -> {}", ctx.history.last().cloned().unwrap_or_default(), res));
                    Some((Some(join(sched)), res))
                }
            }
        }
        ["dump"] | ["settled"] => {
            let mut views = vec![];
            for i in 0..ctx.n as usize {
                views.push(ctx.node_view(i));
            }
            if ws[0] == "settled" {
                settled_oracle(ctx, out);
                out.count("settled");
            }
            Some((None, views.join(" | ")))
        }
        _ => None,
    }
}

fn targets_of(ctx: &Ctx, log: &StepLog) -> Vec<String> {
    log.reps.iter().map(|(p, _)| ctx.sim.as_ref().map(|s| s.pid(p)).unwrap_or_default()).collect()
}

fn fail_str(ctx: &mut Ctx, log: &StepLog) -> String {
    let mut v: Vec<u64> = log.failed.iter().map(|p| ctx.uni.peer_ids.get(p).copied().unwrap_or(9999)).collect();
    v.sort();
    v.dedup();
    join(v.into_iter().map(|x| x.to_string()).collect())
}

/// Oracle (4)/(1) after fair, loss-free rounds: nodes that can hear each other hold, for every register / transaction
/// key, the same bytes, and that content is the union of everything seeded for the key; chunks are byte-identical.
/// Scratchpads are compared only when at most one counter was ever seeded for the key (K-g otherwise).
fn settled_oracle(ctx: &mut Ctx, out: &mut Out) {
    if ctx.lossy || ctx.ranges.iter().any(|r| r.is_some()) {
        out.count("settled:skipped-lossy-or-ranged");
        return;
    }
    // only fully meshed histories: every node is a replication target of and is heard by every other node
    let n = ctx.n as usize;
    for i in 0..n {
        for j in 0..n {
            if i != j {
                let pos = ctx.rts[i].iter().position(|p| *p == j as u64);
                if !matches!(pos, Some(p) if p < CLOSE_GROUP) {
                    out.count("settled:skipped-not-meshed");
                    return;
                }
            }
        }
    }
    out.count("settled:evaluated");
    let seeded = ctx.seeded.clone();
    for (k, contents) in seeded {
        let values: Vec<Option<Vec<u8>>> = (0..n).map(|i| ctx.local_record(i, k)).collect();
        let fam_mixed = contents.iter().any(|c| matches!(c, Content::Pad(_))) && contents.iter().any(|c| matches!(c, Content::Txs(_)));
        let alt_mixed = contents.iter().any(|c| matches!(c, Content::Reg { alt: true, .. })) && contents.iter().any(|c| matches!(c, Content::Reg { alt: false, .. }));
        if fam_mixed || alt_mixed {
            out.count("settled:key-skipped-incompatible-versions");
            continue;
        }
        let expect: Option<Content> = match &contents[0] {
            Content::Chunk => Some(Content::Chunk),
            Content::Txs(_) => {
                let mut u = BTreeSet::new();
                for c in &contents {
                    if let Content::Txs(v) = c {
                        u.extend(v.iter().copied());
                    }
                }
                Some(Content::Txs(u.into_iter().collect()))
            }
            Content::Reg { alt, .. } => {
                let mut u = BTreeSet::new();
                for c in &contents {
                    if let Content::Reg { ops, .. } = c {
                        u.extend(ops.iter().copied());
                    }
                }
                Some(Content::Reg { alt: *alt, ops: u.into_iter().collect() })
            }
            Content::Pad(_) => {
                let counters: BTreeSet<u64> = contents.iter().filter_map(|c| if let Content::Pad(n) = c { Some(*n) } else { None }).collect();
                if counters.len() > 1 {
                    out.count("settled:pad-key-skipped-K-g");
                    None
                } else {
                    Some(contents[0].clone())
                }
            }
        };
        let Some(expect) = expect else { continue };
        let tok = content_token(&expect);
        for (i, v) in values.iter().enumerate() {
            match v {
                Some(bytes) => {
                    let got = describe(k, bytes);
                    if got != tok {
                        let clause = if matches!(expect, Content::Chunk) { "immutable_replicates" } else { "mutable_converge" };
                        fail(out, ctx, clause, format!("after fair rounds node {i} holds {got} at key {k}, expected the merge {tok}"));
                    }
                }
                None => {
                    let clause = if matches!(expect, Content::Chunk) { "immutable_replicates" } else { "mutable_converge" };
                    fail(out, ctx, clause, format!("after fair rounds node {i} holds nothing at key {k}, expected {tok}"));
                }
            }
        }
        let present: Vec<&Vec<u8>> = values.iter().flatten().collect();
        if present.windows(2).any(|w| w[0] != w[1]) {
            fail(out, ctx, "mutable_converge", format!("after fair rounds the copies of key {k} are not byte-identical"));
        }
    }
}

// ---------------------------------------------------------------------------------------------------------
// generator
// ---------------------------------------------------------------------------------------------------------

fn rt_line(uni: &Universe, i: usize, peers: &[u64]) -> String {
    let mut v: Vec<(BigUint, u64)> = peers.iter().map(|p| (uni.dists[i][p].clone(), *p)).collect();
    v.sort();
    format!("rt {i} {}", join(v.into_iter().map(|(d, p)| format!("{p}:{d}")).collect()))
}

fn kd_line(uni: &Universe, i: usize, keys: &[u64]) -> String {
    format!("kd {i} {}", join(keys.iter().map(|k| format!("{k}:{}", uni.key_dists[i][k])).collect()))
}

fn random_content(rng: &mut Rng, k: u64, alt: bool) -> Content {
    match k % 3 {
        0 => Content::Chunk,
        1 => {
            if (k / 3) % 2 == 0 {
                Content::Pad(rng.range(1, 4))
            } else {
                let mut v: Vec<u64> = (0..4).filter(|_| rng.chance(1, 2)).collect();
                if v.is_empty() {
                    v.push(rng.below(4));
                }
                Content::Txs(v)
            }
        }
        _ => Content::Reg { alt, ops: (0..4).filter(|_| rng.chance(1, 2)).collect() },
    }
}

fn pending(ctx: &Ctx) -> Vec<(u64, char, u64)> {
    ctx.sim
        .as_ref()
        .map(|s| {
            s.wire
                .iter()
                .map(|(id, m)| match m {
                    Msg::Rep { to, .. } => (*id, 'r', *to),
                    Msg::Get { to, .. } => (*id, 'g', *to),
                    Msg::Rsp { to, .. } => (*id, 's', *to),
                })
                .collect()
        })
        .unwrap_or_default()
}

/// target selection at the range boundary: >= 7 known peers, range = exact distance of a chosen peer (the run loop uses
/// the (CLOSE_GROUP+1)-th closest), that distance +-1, 0 or the maximum
fn gen_boundary_history(ctx: &mut Ctx, out: &mut Out, rng: &mut Rng, budget: &mut i64) {
    let n = if rng.chance(1, 2) { 2 } else { 3 } as usize;
    let run = |ctx: &mut Ctx, out: &mut Out, l: String, budget: &mut i64| {
        exec(ctx, out, &l);
        *budget -= 1;
    };
    run(ctx, out, format!("new {n}"), budget);
    for i in 0..n {
        let mut peers: Vec<u64> = (0..n as u64).filter(|j| *j != i as u64).collect();
        let s = rng.range(6, 10) as usize;
        peers.extend(ctx.uni.close_strangers[i].iter().take(s).copied());
        let l = rt_line(&ctx.uni, i, &peers);
        run(ctx, out, l, budget);
    }
    let keys: Vec<u64> = vec![rng.below(6) * 3, rng.below(6) * 3 + 2];
    for i in 0..n {
        let l = kd_line(&ctx.uni, i, &keys);
        run(ctx, out, l, budget);
    }
    for i in 0..n {
        let rt = ctx.rts[i].clone();
        let one = BigUint::from(1u8);
        let d = match rng.below(10) {
            0 => BigUint::from(0u8),
            1 => (BigUint::from(1u8) << 256) - 1u8,
            2 | 3 | 4 => ctx.uni.dists[i][&rt[CLOSE_GROUP]].clone(),
            5 => ctx.uni.dists[i][&rt[CLOSE_GROUP]].clone() + &one,
            6 => ctx.uni.dists[i][&rt[CLOSE_GROUP]].clone() - &one,
            7 => ctx.uni.dists[i][&rt[CLOSE_GROUP - 1]].clone(),
            8 => ctx.uni.dists[i][&rt[CLOSE_GROUP - 1]].clone() - &one,
            _ => ctx.uni.dists[i][rng.pick(&rt[..])].clone(),
        };
        run(ctx, out, format!("range {i} {d}"), budget);
    }
    for i in 0..n {
        for k in &keys {
            if rng.chance(2, 3) {
                let c = random_content(rng, *k, false);
                run(ctx, out, format!("seed {i} {k} {}", content_token(&c)), budget);
            }
        }
    }
    let mut order: Vec<usize> = (0..n).collect();
    rng.shuffle(&mut order);
    for i in order {
        run(ctx, out, format!("interval {i}"), budget);
    }
    let mut guard = 0;
    loop {
        let p = pending(ctx);
        if p.is_empty() || guard > 60 {
            break;
        }
        guard += 1;
        let (id, kind, to) = *rng.pick(&p);
        if kind == 'g' && to >= n as u64 {
            run(ctx, out, format!("drop {id}"), budget);
        } else {
            run(ctx, out, format!("deliver {id}"), budget);
        }
    }
    run(ctx, out, "dump".into(), budget);
}

const TIGHT_TICKS: [u64; 8] = [30, 31, 35, 44, 45, 46, 60, 90];

/// consecutive periodic-replication rounds spaced around MIN_REPLICATION_INTERVAL_S (30 s) and REPLICATION_TIMEOUT
/// (45 s), with records stored between rounds, on nodes with at least five replication candidates: who is skipped as
/// "recently served", for how long, and that a record stored after the first round is advertised
fn gen_tight_rounds_history(ctx: &mut Ctx, out: &mut Out, rng: &mut Rng, budget: &mut i64) {
    let n = if rng.chance(1, 2) { 2 } else { 3 } as usize;
    let run = |ctx: &mut Ctx, out: &mut Out, l: String, budget: &mut i64| {
        exec(ctx, out, &l);
        *budget -= 1;
    };
    run(ctx, out, format!("new {n}"), budget);
    for i in 0..n {
        let mut peers: Vec<u64> = (0..n as u64).filter(|j| *j != i as u64).collect();
        // 5 candidates with every other node among them, or more known peers than candidates
        let s = if rng.chance(2, 3) { CLOSE_GROUP - (n - 1) } else { rng.range(5, 8) as usize };
        peers.extend(ctx.uni.close_strangers[i].iter().take(s).copied());
        let l = rt_line(&ctx.uni, i, &peers);
        run(ctx, out, l, budget);
    }
    let keys: Vec<u64> = vec![0, 3, 6, 4, 10, 2, 5];
    for i in 0..n {
        let l = kd_line(&ctx.uni, i, &keys);
        run(ctx, out, l, budget);
    }
    let mut next_chunk = 0usize;
    let main = rng.below(n as u64) as usize;
    run(ctx, out, format!("seed {main} {} {}", keys[next_chunk], "C"), budget);
    next_chunk += 1;
    let rounds = rng.range(4, 9);
    let fixed = if rng.chance(1, 2) { Some(*rng.pick(&TIGHT_TICKS)) } else { None };
    run(ctx, out, format!("interval {main}"), budget);
    for _ in 0..rounds {
        // a record stored between two rounds
        if rng.chance(1, 2) {
            if next_chunk < 3 && rng.chance(1, 2) {
                run(ctx, out, format!("seed {main} {} C", keys[next_chunk]), budget);
                next_chunk += 1;
            } else {
                let k = *rng.pick(&keys[3..]);
                let c = random_content(rng, k, false);
                run(ctx, out, format!("seed {main} {k} {}", content_token(&c)), budget);
            }
        }
        let d = fixed.unwrap_or_else(|| *rng.pick(&TIGHT_TICKS));
        let i = if rng.chance(5, 6) { main } else { rng.below(n as u64) as usize };
        run(ctx, out, format!("tick {i} {d}"), budget);
        run(ctx, out, format!("interval {i}"), budget);
        // deliver some of what is on the wire
        for _ in 0..rng.below(4) {
            let p = pending(ctx);
            if p.is_empty() {
                break;
            }
            let (id, kind, to) = *rng.pick(&p);
            if kind == 'g' && to >= n as u64 {
                run(ctx, out, format!("drop {id}"), budget);
            } else {
                run(ctx, out, format!("deliver {id}"), budget);
            }
        }
    }
    run(ctx, out, "dump".into(), budget);
}

/// a fetch is lost (request or reply dropped), FETCH_TIMEOUT passes at the requester, and the single record of the
/// holder (so that its periodic list is a single-key list) is re-advertised in 2-4 further loss-free rounds
fn gen_lost_fetch_history(ctx: &mut Ctx, out: &mut Out, rng: &mut Rng, budget: &mut i64) {
    let n = if rng.chance(2, 3) { 2 } else { 3 } as usize;
    let run = |ctx: &mut Ctx, out: &mut Out, l: String, budget: &mut i64| {
        exec(ctx, out, &l);
        *budget -= 1;
    };
    run(ctx, out, format!("new {n}"), budget);
    for i in 0..n {
        let mut peers: Vec<u64> = (0..n as u64).filter(|j| *j != i as u64).collect();
        let s = rng.below(3) as usize;
        peers.extend(ctx.uni.close_strangers[i].iter().take(s).copied());
        let l = rt_line(&ctx.uni, i, &peers);
        run(ctx, out, l, budget);
    }
    let k = *rng.pick(&[0u64, 3, 2, 5, 4, 10]);
    for i in 0..n {
        let l = kd_line(&ctx.uni, i, &[k]);
        run(ctx, out, l, budget);
    }
    let holder = rng.below(n as u64) as usize;
    let c = match k % 3 {
        0 => Content::Chunk,
        1 => Content::Txs(vec![rng.below(3)]),
        _ => Content::Reg { alt: false, ops: vec![rng.below(3)] },
    };
    run(ctx, out, format!("seed {holder} {k} {}", content_token(&c)), budget);
    run(ctx, out, format!("interval {holder}"), budget);
    // deliver everything, losing the request or the reply of every fetch
    let lose_reply = rng.chance(1, 2);
    let mut guard = 0;
    loop {
        let p = pending(ctx);
        if p.is_empty() || guard > 40 {
            break;
        }
        guard += 1;
        let (id, kind, _to) = p[0];
        match kind {
            'r' => run(ctx, out, format!("deliver {id}"), budget),
            'g' if lose_reply => run(ctx, out, format!("deliver {id}"), budget),
            _ => run(ctx, out, format!("drop {id}"), budget),
        }
    }
    // past FETCH_TIMEOUT everywhere, then loss-free rounds
    for i in 0..n {
        run(ctx, out, format!("tick {i} {}", rng.pick(&[25u64, 50])), budget);
    }
    for _ in 0..rng.range(2, 4) {
        run(ctx, out, format!("tick {holder} 50"), budget);
        run(ctx, out, format!("interval {holder}"), budget);
        let mut guard = 0;
        loop {
            let p = pending(ctx);
            if p.is_empty() || guard > 40 {
                break;
            }
            guard += 1;
            let (id, kind, to) = *rng.pick(&p);
            if kind == 'g' && to >= n as u64 {
                run(ctx, out, format!("drop {id}"), budget);
            } else {
                run(ctx, out, format!("deliver {id}"), budget);
            }
        }
    }
    run(ctx, out, "dump".into(), budget);
}

fn gen_history(ctx: &mut Ctx, out: &mut Out, rng: &mut Rng, budget: &mut i64) {
    if rng.chance(1, 5) {
        return gen_boundary_history(ctx, out, rng, budget);
    }
    if rng.chance(1, 8) {
        return gen_lost_fetch_history(ctx, out, rng, budget);
    }
    if rng.chance(1, 5) {
        return gen_tight_rounds_history(ctx, out, rng, budget);
    }
    let n = if rng.chance(1, 2) { 2 } else { 3 } as usize;
    let meshed = rng.chance(3, 5);
    let run = |ctx: &mut Ctx, out: &mut Out, l: String, budget: &mut i64| {
        exec(ctx, out, &l);
        *budget -= 1;
    };
    run(ctx, out, format!("new {n}"), budget);
    // routing tables
    for i in 0..n {
        let mut peers: Vec<u64> = (0..n as u64).filter(|j| *j != i as u64 && (meshed || rng.chance(4, 5))).collect();
        let s = if meshed { rng.below(3) } else { *rng.pick(&[0u64, 1, 3, 4, 5, 17, 18, 19, 20, 24]) } as usize;
        peers.extend(ctx.uni.close_strangers[i].iter().take(s).copied());
        let l = rt_line(&ctx.uni, i, &peers);
        run(ctx, out, l, budget);
    }
    // keys of this history
    let n_keys = rng.range(2, 6);
    let mut keys: Vec<u64> = vec![];
    while (keys.len() as u64) < n_keys {
        let k = rng.below(MAX_KEY.min(18));
        if !keys.contains(&k) {
            keys.push(k);
        }
    }
    keys.sort();
    for i in 0..n {
        let l = kd_line(&ctx.uni, i, &keys);
        run(ctx, out, l, budget);
    }
    if !meshed && rng.chance(1, 3) {
        let i = rng.below(n as u64) as usize;
        let d = match rng.below(4) {
            0 => ctx.uni.key_dists[i][rng.pick(&keys)].clone(),
            1 => ctx.rts[i].first().map(|p| ctx.uni.dists[i][p].clone()).unwrap_or_default(),
            2 => ctx.rts[i].last().map(|p| ctx.uni.dists[i][p].clone()).unwrap_or_default(),
            _ => (BigUint::from(1u8) << 256) - 1u8,
        };
        run(ctx, out, format!("range {i} {d}"), budget);
    }
    // seeds
    let alt_of: BTreeMap<u64, bool> = keys.iter().map(|k| (*k, rng.chance(1, 4))).collect();
    for k in &keys {
        let holders = rng.range(1, n as u64);
        let mut nodes: Vec<usize> = (0..n).collect();
        rng.shuffle(&mut nodes);
        for i in nodes.into_iter().take(holders as usize) {
            let alt = if rng.chance(1, 12) { !alt_of[k] } else { alt_of[k] };
            let c = random_content(rng, *k, alt);
            run(ctx, out, format!("seed {i} {k} {}", content_token(&c)), budget);
        }
    }
    // free phase
    let free_steps = if meshed { rng.below(10) } else { rng.range(8, 30) };
    for _ in 0..free_steps {
        let p = pending(ctx);
        let roll = rng.below(100);
        if roll < 14 {
            let i = rng.below(n as u64);
            if rng.chance(2, 3) {
                run(ctx, out, format!("tick {i} {}", rng.pick(&[25u64, 50, 50, 1000])), budget);
            }
            run(ctx, out, format!("interval {i}"), budget);
        } else if roll < 24 && !meshed {
            let to = rng.below(n as u64) as usize;
            let from = if rng.chance(1, 2) { *rng.pick(&ctx.uni.close_strangers[to][..]) } else { rng.below(n as u64) };
            let cnt = rng.range(1, 3);
            let list: Vec<String> = (0..cnt)
                .map(|_| {
                    let k = *rng.pick(&keys);
                    let c = random_content(rng, k, alt_of[&k]);
                    let t = match c {
                        Content::Chunk => "C".to_string(),
                        Content::Pad(_) => "S".to_string(),
                        other => content_token(&other),
                    };
                    format!("{k}={t}")
                })
                .collect();
            if rng.chance(1, 2) {
                // the holder field claims somebody else: another node, or one of the receiver's closest strangers
                let claimed = if rng.chance(2, 3) { rng.below(n as u64) } else { *rng.pick(&ctx.uni.close_strangers[to][..]) };
                if claimed != from {
                    run(ctx, out, format!("spoof {from} {claimed} {to} {}", list.join(",")), budget);
                } else {
                    run(ctx, out, format!("forge {from} {to} {}", list.join(",")), budget);
                }
            } else {
                run(ctx, out, format!("forge {from} {to} {}", list.join(",")), budget);
            }
        } else if roll < 28 && !meshed {
            let i = rng.below(n as u64);
            run(ctx, out, format!("tick {i} {}", rng.pick(&[25u64, 50, 1000])), budget);
        } else if roll < 32 && !meshed {
            // a later local update on some node
            let k = *rng.pick(&keys);
            let i = rng.below(n as u64);
            let c = random_content(rng, k, alt_of[&k]);
            run(ctx, out, format!("seed {i} {k} {}", content_token(&c)), budget);
        } else if !p.is_empty() {
            let (id, kind, to) = *rng.pick(&p);
            let lossy_ok = !meshed;
            if lossy_ok && rng.chance(1, 10) {
                run(ctx, out, format!("drop {id}"), budget);
            } else if lossy_ok && kind == 'r' && rng.chance(1, 8) {
                run(ctx, out, format!("dup {id}"), budget);
            } else if kind == 'g' && to >= n as u64 {
                run(ctx, out, format!("drop {id}"), budget);
            } else {
                run(ctx, out, format!("deliver {id}"), budget);
            }
        } else {
            let i = rng.below(n as u64);
            run(ctx, out, format!("tick {i} 50"), budget);
            run(ctx, out, format!("interval {i}"), budget);
        }
    }
    // fair closing rounds: everybody advertises, everything is delivered (random order), repeated
    if meshed || rng.chance(1, 3) {
        let rounds = 3;
        for _ in 0..rounds {
            for i in 0..n {
                run(ctx, out, format!("tick {i} 50"), budget);
            }
            let mut order: Vec<usize> = (0..n).collect();
            rng.shuffle(&mut order);
            for i in order {
                run(ctx, out, format!("interval {i}"), budget);
            }
            let mut guard = 0;
            loop {
                let p = pending(ctx);
                if p.is_empty() || guard > 200 {
                    break;
                }
                guard += 1;
                let (id, kind, to) = *rng.pick(&p);
                if kind == 'g' && to >= n as u64 {
                    run(ctx, out, format!("drop {id}"), budget);
                } else {
                    run(ctx, out, format!("deliver {id}"), budget);
                }
            }
        }
        run(ctx, out, "settled".into(), budget);
    } else {
        run(ctx, out, "dump".into(), budget);
    }
}

fn corpus(uni: &Universe) -> Vec<String> {
    let mut v: Vec<String> = vec![];
    let mesh2 = |v: &mut Vec<String>, keys: &[u64]| {
        v.push("new 2".into());
        v.push(rt_line(uni, 0, &[1]));
        v.push(rt_line(uni, 1, &[0]));
        v.push(kd_line(uni, 0, keys));
        v.push(kd_line(uni, 1, keys));
    };
    // target selection on the boundary (runs first): node 0 knows 7 peers, its range is exactly the distance of its 6th
    // closest peer (what the run loop computes from closest_k_peers[CLOSE_GROUP_SIZE + 1]): six targets, the boundary peer included
    {
        let mut peers: Vec<u64> = uni.close_strangers[0].iter().take(6).copied().collect();
        peers.push(1);
        let mut sorted: Vec<(BigUint, u64)> = peers.iter().map(|p| (uni.dists[0][p].clone(), *p)).collect();
        sorted.sort();
        v.push("new 2".into());
        v.push(rt_line(uni, 0, &peers));
        v.push(rt_line(uni, 1, &[0]));
        v.push(kd_line(uni, 0, &[0]));
        v.push(kd_line(uni, 1, &[0]));
        v.push(format!("range 0 {}", sorted[CLOSE_GROUP].0));
        v.push("seed 0 0 C".into());
        v.push("interval 0".into());
        v.push("dump".into());
        // one below the boundary distance: five peers in range, still no fallback
        v.push("new 2".into());
        v.push(rt_line(uni, 0, &peers));
        v.push(rt_line(uni, 1, &[0]));
        v.push(kd_line(uni, 0, &[0]));
        v.push(kd_line(uni, 1, &[0]));
        v.push(format!("range 0 {}", sorted[CLOSE_GROUP].0.clone() - BigUint::from(1u8)));
        v.push("seed 0 0 C".into());
        v.push("interval 0".into());
        v.push("dump".into());
        // range = distance of the farthest known peer (node 1): everybody, node 1 included, is a target
        v.push("new 2".into());
        v.push(rt_line(uni, 0, &peers));
        v.push(rt_line(uni, 1, &[0]));
        v.push(kd_line(uni, 0, &[0]));
        v.push(kd_line(uni, 1, &[0]));
        v.push(format!("range 0 {}", sorted[6].0));
        v.push("seed 0 0 C".into());
        v.push("interval 0".into());
        v.push("deliver 1".into());
        v.push("dump".into());
    }
    // rounds 30-45 s apart on a node with five candidates (node 1 among them): a peer skipped as "recently served" must
    // not have its 45 s window renewed by the skip; the chunk stored after round 1 is advertised in round 3
    {
        let mut peers: Vec<u64> = uni.close_strangers[0].iter().take(4).copied().collect();
        peers.push(1);
        v.push("new 2".into());
        v.push(rt_line(uni, 0, &peers));
        v.push(rt_line(uni, 1, &[0]));
        v.push(kd_line(uni, 0, &[0, 3]));
        v.push(kd_line(uni, 1, &[0, 3]));
        for l in [
            "seed 0 0 C", "interval 0", "tick 0 35", "interval 0", "seed 0 3 C", "tick 0 35", "interval 0", "tick 0 35", "interval 0", "tick 0 35", "interval 0",
            "tick 0 44", "interval 0", "tick 0 30", "interval 0", "tick 0 45", "interval 0", "tick 0 46", "interval 0", "tick 0 31", "interval 0", "tick 0 60",
            "interval 0", "deliver 1", "deliver 2", "dump",
        ] {
            v.push(l.into());
        }
    }
    // a lost fetch is retried: node 1's fetch of the only chunk of node 0 loses its reply; past FETCH_TIMEOUT the next
    // (single-key) advertisement clears the dead in-flight entry (node 0 is reported as failed), the one after it is fetched
    mesh2(&mut v, &[0]);
    for l in [
        "seed 0 0 C", "interval 0", "deliver 1", "deliver 2", "drop 3", "tick 1 25", "tick 0 50", "interval 0", "deliver 4", "tick 0 50", "interval 0", "deliver 5",
        "deliver 6", "deliver 7", "dump",
    ] {
        v.push(l.into());
    }
    // a heard holder advertises a chunk it does not hold: the fetch is scheduled, the holder answers "not found", the
    // fallback network get finds nothing, nothing is stored
    mesh2(&mut v, &[0]);
    for l in ["forge 1 0 0=C", "deliver 1", "deliver 2", "deliver 3", "dump"] {
        v.push(l.into());
    }
    // a far peer speaks for a close one: a stranger that node 0 does not know sends it a list whose holder field names
    // node 1 (close, and really holding the chunk); then node 1 itself sends the same list
    mesh2(&mut v, &[0]);
    let stranger = uni.close_strangers[0][0];
    for l in ["seed 1 0 C".to_string(), format!("spoof {stranger} 1 0 0=C"), "deliver 1".into(), "forge 1 0 0=C".into(), "deliver 2".into(), "dump".into()] {
        v.push(l);
    }
    // a trigger on an empty index still starts the minimum interval: the record uploaded right after it is advertised
    // by the first trigger that fires 30 s later, not before (shrunk from a thorough-tier oracle false alarm)
    mesh2(&mut v, &[0]);
    for l in ["interval 1", "seed 1 0 C", "interval 1", "tick 1 25", "interval 1", "tick 1 25", "interval 1", "deliver 1", "tick 1 25", "interval 1", "tick 1 25", "interval 1", "dump"] {
        v.push(l.into());
    }
    // K-g: scratchpads with different counters never converge
    mesh2(&mut v, &[1]);
    for l in ["seed 0 1 S1", "seed 1 1 S2", "interval 0", "deliver 1", "interval 1", "deliver 2", "tick 0 50", "tick 1 50", "interval 0", "deliver 3", "interval 1", "deliver 4", "dump"] {
        v.push(l.into());
    }
    // F-g (fixed): diverging registers and transaction sets converge in one round
    mesh2(&mut v, &[2, 4]);
    for l in [
        "seed 0 2 R0.1", "seed 1 2 R1.2", "seed 0 4 T0", "seed 1 4 T1", "interval 0", "deliver 1", "deliver 2", "deliver 3", "deliver 4", "deliver 5", "interval 1",
        "deliver 6", "deliver 7", "deliver 8", "deliver 9", "deliver 10", "settled",
    ] {
        v.push(l.into());
    }
    // chunk replication + a holder that is not among the 20 closest
    v.push("new 2".into());
    let mut far: Vec<u64> = uni.close_strangers[1].iter().take(19).copied().collect();
    far.push(0);
    v.push(rt_line(uni, 0, &[1]));
    v.push(rt_line(uni, 1, &far));
    v.push(kd_line(uni, 0, &[0, 3]));
    v.push(kd_line(uni, 1, &[0, 3]));
    for l in ["seed 0 0 C", "seed 0 3 C", "interval 0", "deliver 1", "dump"] {
        v.push(l.into());
    }
    // a register fetch that merges to nothing leaves its in-flight entry; after FETCH_TIMEOUT the honest holder is
    // reported as failed and its next (genuinely new) advertisement is dropped for that round
    mesh2(&mut v, &[2, 4]);
    for l in [
        "seed 0 2 R0.1", "seed 1 2 R0.1.2", "seed 0 4 T0", "interval 0", "deliver 1", "deliver 2", "deliver 3", "deliver 4", "deliver 5", "tick 1 25", "tick 0 50",
        "seed 0 4 T0.1", "interval 0", "deliver 6", "tick 0 50", "tick 1 50", "interval 0", "deliver 7", "deliver 8", "deliver 9", "interval 1", "deliver 10", "deliver 11",
        "deliver 12", "dump",
    ] {
        v.push(l.into());
    }
    // C08 arrival clause (repaired defect, minimal): node 1 holds a superset register, node 0 advertises the older version;
    // the fetched copy changes nothing — the fetch must leave the in-flight set all the same, and after FETCH_TIMEOUT the
    // honest holder must not be reported
    mesh2(&mut v, &[2, 4]);
    for l in ["seed 0 2 R0.1", "seed 1 2 R0.1.2", "interval 0", "deliver 1", "deliver 2", "deliver 3", "dump", "tick 1 25", "tick 0 50", "interval 0", "deliver 4", "dump"] {
        v.push(l.into());
    }
    // the same for a chunk that is held by the time its copy arrives, and for a transaction set
    mesh2(&mut v, &[0, 4]);
    for l in ["seed 0 0 C", "seed 0 4 T0", "seed 1 4 T0.1", "interval 0", "deliver 1", "seed 1 0 C", "deliver 2", "deliver 3", "deliver 4", "deliver 5", "dump", "tick 1 25", "tick 0 50", "interval 0", "deliver 6", "dump"] {
        v.push(l.into());
    }
    // K-y-served-version-differs: the holder's register changes between its advertisement and the serve; the served copy
    // changes nothing at the requester, the fetch registered under the advertised type stays and the holder is reported
    mesh2(&mut v, &[2, 4]);
    for l in ["seed 0 2 R0", "seed 1 2 R0.1.2", "interval 0", "deliver 1", "seed 0 2 R0.1", "deliver 2", "deliver 3", "tick 1 25", "tick 0 50", "interval 0", "deliver 4", "dump"] {
        v.push(l.into());
    }
    // a stored reply followed by the completion notice while the same version is queued from another holder (3 nodes)
    v.push("new 3".into());
    v.push(rt_line(uni, 0, &[1, 2]));
    v.push(rt_line(uni, 1, &[0, 2]));
    v.push(rt_line(uni, 2, &[0, 1]));
    for i in 0..3 {
        v.push(kd_line(uni, i, &[2, 5]));
    }
    for l in [
        "seed 0 2 R0.1", "seed 0 5 R0.1", "seed 1 2 R0.1", "seed 1 5 R0.1", "seed 2 2 R0.2", "seed 2 5 R0.2", "forge 0 2 2=R0.1,5=R0.1", "forge 1 2 2=R0.1,5=R0.1",
        "deliver 1", "deliver 2", "deliver 3", "deliver 4", "deliver 5", "deliver 6", "dump",
    ] {
        v.push(l.into());
    }
    v
}

fn main() {
    std::panic::set_hook(Box::new(|_| {}));
    let args = common::parse_args();
    let mut out = Out::new(&args.out);
    let uni = Universe::new();
    let mut ctx = Ctx {
        uni,
        sim: None,
        n: 0,
        rts: vec![],
        ranges: vec![],
        held: vec![],
        seeded: BTreeMap::new(),
        history: vec![],
        lossy: false,
        tight: false,
        clock: vec![],
        last_trigger: vec![],
        served_at: vec![],
        lost_fetch: vec![],
        slow_histories: 0,
        outstanding: vec![],
    };
    if let Some(p) = &args.replay {
        for l in common::read_lines(p) {
            exec(&mut ctx, &mut out, &l);
        }
    } else {
        let mut rng = Rng::new(args.seed);
        let mut budget = args.n as i64;
        for l in corpus(&ctx.uni) {
            exec(&mut ctx, &mut out, &l);
            budget -= 1;
        }
        while budget > 0 {
            gen_history(&mut ctx, &mut out, &mut rng, &mut budget);
        }
    }
    if let Some(old) = ctx.sim.take() {
        old.shutdown();
    }
    if ctx.slow_histories > 0 {
        out.notes.push(format!("{} histories were slow in real time (more than 3.5 s, or more than 0.8 s for a history with ticks next to a timing constant, e.g. 44 s against 45 s): a simulated-time comparison may have been decided by real time", ctx.slow_histories));
    }
    out.notes.push("glue executed by the harness instead of the real code: the Cmd::Replicate match arm (played as rs2lean read it from the source: add_keys_to_replication_fetcher is called unconditionally or only when the holder field is the request's sending peer), libp2p request-response (a request becomes a NetworkEvent::QueryRequestReceived with a FromSelf responder / the requester's oneshot is answered with the response), the run loop's select (commands polled through the hook), FailedToFetchHolders is observed but not forwarded".into());
    out.finish();
}
