//! C08 harness: drives the REAL `ReplicationFetcher` (through the cfg-guarded wrapper
//! `ant_networking::verif::replication_fetcher::VerifFetcher`) with generated histories, prints one canonical
//! output line per operation for the differential run against the Lean model (`drv_fetcher`), and evaluates
//! a model-independent oracle for the C08 clauses on the observable behaviour.
//!
//! Op lines (inputs + data derived by the harness; derived parts are regenerated on `--replay`):
//!   new <seed>                       fresh fetcher, self peer derived from <seed>; clears keys/local map
//!   key <k> [<dist> <addr> <self>]   declares key k; <dist> = XOR distance key↔self (sha2 + XOR, computed here), then the
//!                                    address bytes and this node's peer-id bytes (the model recomputes <dist> with its SHA-256)
//!   local <k> <t> | unlocal <k>      edits the `locally_stored_keys` map handed to later `add` calls
//!   add <h> <k:t,...|-> [<w>]        add_keys(holder h, list, local map); <w> = returned list `h:k:t,...` (choice witness)
//!   put <k> <t> [<w>]                notify_about_new_put
//!   early <k> <t> [<w>]              notify_fetch_early_completed
//!   next [<w>]                       next_keys_to_fetch
//!   range <n>                        set_replication_distance_range(n)
//!   full <k>|none                    set_farthest_on_full(Some(key k) | None)
//!   age <secs>                       every stored deadline moves <secs> into the past
//! Record type codes: 0 = Chunk, 1 = Scratchpad, n+2 = NonChunk(hash #n).
//! Output line: ret=<h:k:t,..> fail=<h,..> tbf=<k:t:h:rem,..> ogf=<k:t:h:rem,..> range=<n|none> far=<n|none>
use ant_networking::verif::replication_fetcher::{
    VerifFetcher, FETCH_TIMEOUT_VALUE, MAX_PARALLEL_FETCH_VALUE,
};
use ant_networking::NetworkEvent;
use ant_protocol::storage::{ChunkAddress, RecordType, TransactionAddress};
use ant_protocol::NetworkAddress;
use common::{Out, Rng};
use libp2p::kad::RecordKey;
use libp2p::PeerId;
use num_bigint::BigUint;
use sha2::{Digest, Sha256};
use std::collections::{BTreeMap, BTreeSet, HashMap};
use std::panic::{catch_unwind, AssertUnwindSafe};
use std::time::{Duration, Instant};
use tokio::sync::mpsc;
use xor_name::XorName;

fn sha(parts: &[&[u8]]) -> [u8; 32] {
    let mut h = Sha256::new();
    for p in parts {
        h.update(p);
    }
    h.finalize().into()
}

fn peer_from(tag: &str, n: u64) -> PeerId {
    let seed = sha(&[tag.as_bytes(), &n.to_be_bytes()]);
    let kp = libp2p::identity::Keypair::ed25519_from_bytes(seed).expect("ed25519 seed");
    kp.public().to_peer_id()
}

/// key id -> (address as advertised, raw key bytes). Three address shapes share the same bytes→key mapping.
fn key_from(k: u32) -> (NetworkAddress, Vec<u8>) {
    let x = sha(&[b"key", &k.to_be_bytes()]);
    match k % 3 {
        0 => (NetworkAddress::from_chunk_address(ChunkAddress::new(XorName(x))), x.to_vec()),
        1 => (NetworkAddress::from_transaction_address(TransactionAddress::new(XorName(x))), x.to_vec()),
        _ => {
            // a raw record key of 50 bytes, as in the crate's own tests
            let mut b = x.to_vec();
            b.extend_from_slice(&sha(&[b"tail", &k.to_be_bytes()])[..18]);
            (NetworkAddress::from_record_key(&RecordKey::from(b.clone())), b)
        }
    }
}

fn nonchunk_hash(i: u32) -> XorName {
    XorName(sha(&[b"nonchunk", &i.to_be_bytes()]))
}

fn type_from(t: u32) -> RecordType {
    match t {
        0 => RecordType::Chunk,
        1 => RecordType::Scratchpad,
        n => RecordType::NonChunk(nonchunk_hash(n - 2)),
    }
}

/// independent distance: big-endian 256-bit XOR of the SHA-256 digests
fn xor_distance(a: &[u8], b: &[u8]) -> BigUint {
    let ha = sha(&[a]);
    let hb = sha(&[b]);
    let x: Vec<u8> = ha.iter().zip(hb.iter()).map(|(p, q)| p ^ q).collect();
    BigUint::from_bytes_be(&x)
}

#[derive(Clone, Debug, PartialEq)]
struct E {
    k: u32,
    t: u32,
    h: u32,
    dl: Instant,
}

struct World {
    rt: tokio::runtime::Runtime,
    f: VerifFetcher,
    rx: mpsc::Receiver<NetworkEvent>,
    self_bytes: Vec<u8>,
    keys: BTreeMap<u32, (NetworkAddress, RecordKey)>,
    key_ids: HashMap<Vec<u8>, u32>,
    dist: BTreeMap<u32, BigUint>,
    peers: BTreeMap<u32, PeerId>,
    peer_ids: HashMap<PeerId, u32>,
    local: HashMap<RecordKey, (NetworkAddress, RecordType)>,
    local_ids: BTreeMap<u32, u32>,
    // independent bookkeeping for the oracle
    far: Option<BigUint>,
    range: Option<BigUint>,
    history: Vec<String>,
    started: Instant,
    last: Instant,
}

impl World {
    fn new(seed: u64) -> World {
        let rt = tokio::runtime::Builder::new_current_thread().enable_all().build().expect("rt");
        let self_peer = peer_from("self", seed);
        let (tx, rx) = mpsc::channel(4096);
        let f = {
            let _g = rt.enter();
            VerifFetcher::new(self_peer, tx)
        };
        World {
            rt,
            f,
            rx,
            self_bytes: self_peer.to_bytes(),
            keys: BTreeMap::new(),
            key_ids: HashMap::new(),
            dist: BTreeMap::new(),
            peers: BTreeMap::new(),
            peer_ids: HashMap::new(),
            local: HashMap::new(),
            local_ids: BTreeMap::new(),
            far: None,
            range: None,
            history: vec![],
            started: Instant::now(),
            last: Instant::now(),
        }
    }
    fn key(&mut self, k: u32) -> (NetworkAddress, RecordKey) {
        if let Some(x) = self.keys.get(&k) {
            return x.clone();
        }
        let (addr, bytes) = key_from(k);
        let rk = addr.to_record_key();
        self.key_ids.insert(rk.to_vec(), k);
        self.dist.insert(k, xor_distance(&self.self_bytes, &bytes));
        self.keys.insert(k, (addr.clone(), rk.clone()));
        (addr, rk)
    }
    fn peer(&mut self, h: u32) -> PeerId {
        if let Some(p) = self.peers.get(&h) {
            return *p;
        }
        let p = peer_from("holder", h as u64);
        self.peers.insert(h, p);
        self.peer_ids.insert(p, h);
        p
    }
    fn type_id(&self, t: &RecordType) -> u32 {
        match t {
            RecordType::Chunk => 0,
            RecordType::Scratchpad => 1,
            RecordType::NonChunk(x) => (0..64).find(|i| &nonchunk_hash(*i) == x).map(|i| i + 2).unwrap_or(9999),
        }
    }
    fn kid(&self, k: &RecordKey) -> u32 {
        self.key_ids.get(&k.to_vec()).copied().unwrap_or(9999)
    }
    fn pid(&self, p: &PeerId) -> u32 {
        self.peer_ids.get(p).copied().unwrap_or(9999)
    }
    fn tbf(&self) -> Vec<E> {
        let mut v: Vec<E> = self
            .f
            .to_be_fetched()
            .iter()
            .map(|(k, t, h, d)| E { k: self.kid(k), t: self.type_id(t), h: self.pid(h), dl: *d })
            .collect();
        v.sort_by_key(|e| (e.k, e.t, e.h));
        v
    }
    fn ogf(&self) -> Vec<E> {
        let mut v: Vec<E> = self
            .f
            .on_going_fetches()
            .iter()
            .map(|(k, t, h, d)| E { k: self.kid(k), t: self.type_id(t), h: self.pid(h), dl: *d })
            .collect();
        v.sort_by_key(|e| (e.k, e.t, e.h));
        v
    }
    /// strictly later than every instant observed so far
    fn tick(&mut self) -> Instant {
        loop {
            let n = Instant::now();
            if n > self.last {
                self.last = n;
                return n;
            }
        }
    }
    fn d(&self, k: u32) -> BigUint {
        self.dist.get(&k).cloned().unwrap_or_default()
    }
}

fn rem(dl: Instant, now: Instant) -> String {
    if dl >= now {
        let n = (dl - now).as_nanos();
        let s = (n + 999_999_999) / 1_000_000_000;
        format!("{s}")
    } else {
        let n = (now - dl).as_nanos();
        let s = n / 1_000_000_000;
        if s == 0 {
            "0".into()
        } else {
            format!("-{s}")
        }
    }
}

fn join(v: Vec<String>) -> String {
    if v.is_empty() {
        "-".into()
    } else {
        v.join(",")
    }
}

fn parse_list(s: &str) -> Option<Vec<(u32, u32)>> {
    if s == "-" {
        return Some(vec![]);
    }
    s.split(',')
        .map(|p| {
            let mut it = p.split(':');
            let k = it.next()?.parse().ok()?;
            let t = it.next()?.parse().ok()?;
            if it.next().is_some() {
                return None;
            }
            Some((k, t))
        })
        .collect()
}

enum Call {
    Add { h: u32, list: Vec<(u32, u32)> },
    Put { k: u32, t: u32 },
    Early { k: u32, t: u32 },
    Next,
}

/// executes one (proto-)op line on the real code; returns the full op line and the canonical output line
fn exec(w: &mut Option<World>, line: &str, out: &mut Out) -> (String, String) {
    let ws: Vec<&str> = line.split_whitespace().collect();
    let bad = |l: &str| (l.to_string(), "bad-op".to_string());
    if ws.is_empty() {
        return bad(line);
    }
    if ws[0] == "new" {
        let Some(seed) = ws.get(1).and_then(|s| s.parse::<u64>().ok()) else { return bad(line) };
        let mut nw = World::new(seed);
        let l = format!("new {seed}");
        nw.history.push(l.clone());
        *w = Some(nw);
        return (l, "ok".into());
    }
    let Some(w) = w.as_mut() else { return bad(line) };
    let num = |i: usize| ws.get(i).and_then(|s| s.parse::<u32>().ok());
    let (full, res) = match ws[0] {
        "key" => {
            let Some(k) = num(1) else { return bad(line) };
            let (addr, _) = w.key(k);
            // derived: the distance (sha2 + XOR here), then the bytes it is the distance of — the advertised address
            // and this node's peer id; the model recomputes the number with its own SHA-256
            (format!("key {k} {} {} {}", w.d(k), common::hex(&addr.as_bytes()), common::hex(&w.self_bytes)), "ok".to_string())
        }
        "local" => {
            let (Some(k), Some(t)) = (num(1), num(2)) else { return bad(line) };
            let (addr, rk) = w.key(k);
            w.local.insert(rk, (addr, type_from(t)));
            w.local_ids.insert(k, t);
            (format!("local {k} {t}"), "ok".to_string())
        }
        "unlocal" => {
            let Some(k) = num(1) else { return bad(line) };
            let (_, rk) = w.key(k);
            w.local.remove(&rk);
            w.local_ids.remove(&k);
            (format!("unlocal {k}"), "ok".to_string())
        }
        "add" => {
            let (Some(h), Some(list)) = (num(1), ws.get(2).and_then(|s| parse_list(s))) else { return bad(line) };
            call(w, Call::Add { h, list }, format!("add {h} {}", ws[2]), out)
        }
        "put" => {
            let (Some(k), Some(t)) = (num(1), num(2)) else { return bad(line) };
            call(w, Call::Put { k, t }, format!("put {k} {t}"), out)
        }
        "early" => {
            let (Some(k), Some(t)) = (num(1), num(2)) else { return bad(line) };
            call(w, Call::Early { k, t }, format!("early {k} {t}"), out)
        }
        "next" => call(w, Call::Next, "next".to_string(), out),
        "range" => {
            let Some(r) = ws.get(1).and_then(|s| s.parse::<BigUint>().ok()) else { return bad(line) };
            if r.bits() > 256 {
                return bad(line);
            }
            let u = ant_evm::U256::from_str_radix(&r.to_string(), 10).expect("u256");
            let (tb, ob) = (w.tbf(), w.ogf());
            w.f.set_replication_distance_range(u);
            w.range = Some(r.clone());
            let l = format!("range {r}");
            let o = passive(w, &l, &tb, &ob, None, out);
            (l, o)
        }
        "full" => {
            let (tb, ob) = (w.tbf(), w.ogf());
            let l;
            let mut newfar = None;
            if ws.get(1) == Some(&"none") {
                w.f.set_farthest_on_full(None);
                l = "full none".to_string();
            } else {
                let Some(k) = num(1) else { return bad(line) };
                let (_, rk) = w.key(k);
                w.f.set_farthest_on_full(Some(rk));
                let d = w.d(k);
                if w.far.as_ref().map(|f| &d < f).unwrap_or(true) {
                    w.far = Some(d.clone());
                    newfar = Some(d);
                }
                l = format!("full {k}");
            }
            let o = passive(w, &l, &tb, &ob, newfar, out);
            (l, o)
        }
        "age" => {
            let Some(d) = num(1) else { return bad(line) };
            let (tb, ob) = (w.tbf(), w.ogf());
            let ok = w.f.age(Duration::from_secs(d as u64));
            let l = format!("age {d}");
            let mut o = passive(w, &l, &tb, &ob, None, out);
            if !ok {
                o = format!("age-underflow {o}");
            }
            (l, o)
        }
        _ => return bad(line),
    };
    w.history.push(full.clone());
    (full, res)
}

fn hist(w: &World, l: &str) -> String {
    let mut h = w.history.clone();
    h.push(l.to_string());
    h.join(" ; ")
}

fn dump(w: &World, ret: &str, fail: &str, now: Instant) -> String {
    let tbf = join(w.tbf().iter().map(|e| format!("{}:{}:{}:{}", e.k, e.t, e.h, rem(e.dl, now))).collect());
    let ogf = join(w.ogf().iter().map(|e| format!("{}:{}:{}:{}", e.k, e.t, e.h, rem(e.dl, now))).collect());
    let range = w.f.distance_range().map(|r| r.to_string()).unwrap_or_else(|| "none".into());
    let far = w
        .f
        .farthest_acceptable_distance()
        .map(|d| {
            let s = format!("{d:?}");
            s.trim_start_matches("Distance(").trim_end_matches(')').to_string()
        })
        .unwrap_or_else(|| "none".into());
    format!("ret={ret} fail={fail} tbf={tbf} ogf={ogf} range={range} far={far}")
}

fn drain_events(w: &mut World) -> Vec<BTreeSet<u32>> {
    for _ in 0..3 {
        w.rt.block_on(async { tokio::task::yield_now().await });
    }
    let mut evs = vec![];
    while let Ok(ev) = w.rx.try_recv() {
        if let NetworkEvent::FailedToFetchHolders(s) = ev {
            evs.push(s.iter().map(|p| w.pid(p)).collect());
        } else {
            evs.push([9998u32].into_iter().collect());
        }
    }
    evs
}

fn check_full(w: &World, l: &str, out: &mut Out) {
    if let Some(f) = &w.far {
        for e in w.tbf().iter().chain(w.ogf().iter()) {
            if &w.d(e.k) > f {
                out.oracle_fail("full_respected", &hist(w, l), &format!("key {} type {} is queued or in flight although farther than the farthest acceptable record", e.k, e.t));
            }
        }
    }
}

/// operations that schedule nothing: range / full / age
fn passive(w: &mut World, l: &str, tb: &[E], ob: &[E], newfar: Option<BigUint>, out: &mut Out) -> String {
    let now = w.tick();
    let evs = drain_events(w);
    if !evs.is_empty() {
        out.oracle_fail("timeout_reports_and_drops", &hist(w, l), "an event was emitted by an operation that does not prune");
    }
    let (ta, oa) = (w.tbf(), w.ogf());
    // nothing appears; entries disappear only by `full`, and then only the farther ones
    for (before, after, name) in [(tb, &ta, "to_be_fetched"), (ob, &oa, "on_going_fetches")] {
        for e in after.iter() {
            if !before.iter().any(|b| (b.k, b.t, b.h) == (e.k, e.t, e.h)) {
                out.oracle_fail("passive_op", &hist(w, l), &format!("{name} gained an entry for key {}", e.k));
            }
        }
        for b in before.iter() {
            let still = after.iter().any(|e| (b.k, b.t, b.h) == (e.k, e.t, e.h));
            let must_go = newfar.as_ref().map(|f| &w.d(b.k) > f).unwrap_or(false);
            if !still && !must_go {
                out.oracle_fail("passive_op", &hist(w, l), &format!("{name} lost the entry for key {} without reason", b.k));
            }
        }
    }
    check_full(w, l, out);
    dump(w, "-", "-", now)
}

fn call(w: &mut World, c: Call, proto: String, out: &mut Out) -> (String, String) {
    // register ids first so that dumps can be mapped back
    match &c {
        Call::Add { h, list } => {
            w.peer(*h);
            for (k, _) in list {
                w.key(*k);
            }
        }
        Call::Put { k, .. } | Call::Early { k, .. } => {
            w.key(*k);
        }
        Call::Next => {}
    }
    let tb = w.tbf();
    let ob = w.ogf();
    let start = w.tick();
    let r = {
        let _g = w.rt.enter();
        let f = &mut w.f;
        match &c {
            Call::Add { h, list } => {
                let holder = *w.peers.get(h).expect("registered above");
                let incoming: Vec<(NetworkAddress, RecordType)> =
                    list.iter().map(|(k, t)| (key_from(*k).0, type_from(*t))).collect();
                let local = &w.local;
                catch_unwind(AssertUnwindSafe(|| f.add_keys(holder, incoming, local)))
            }
            Call::Put { k, t } => {
                let rk = key_from(*k).0.to_record_key();
                let ty = type_from(*t);
                catch_unwind(AssertUnwindSafe(|| f.notify_about_new_put(rk, ty)))
            }
            Call::Early { k, t } => {
                let rk = key_from(*k).0.to_record_key();
                let ty = type_from(*t);
                catch_unwind(AssertUnwindSafe(|| f.notify_fetch_early_completed(rk, ty)))
            }
            Call::Next => catch_unwind(AssertUnwindSafe(|| f.next_keys_to_fetch())),
        }
    };
    let Ok(r) = r else {
        let l = format!("{proto} -");
        out.oracle_fail("no_panic", &hist(w, &l), "the fetcher panicked");
        return (l, "panic".into());
    };
    let evs = drain_events(w);
    let now = w.tick();
    let ta = w.tbf();
    let oa = w.ogf();
    let raw: Vec<(u32, u32)> = r.iter().map(|(p, k)| (w.pid(p), w.kid(k))).collect();

    // resolve the record type of each returned (holder, key): the fresh in-flight entries of this call
    let fresh_dl = start + FETCH_TIMEOUT_VALUE;
    let fresh: Vec<&E> = oa.iter().filter(|e| e.dl >= fresh_dl).collect();
    let mut used = vec![false; fresh.len()];
    let mut ret: Vec<(u32, u32, u32)> = vec![]; // (h, k, t)
    let mut unresolved = false;
    // the single new key of an advertisement goes first in the returned list (fast path): if a fresh in-flight
    // entry of exactly that version and holder exists, it belongs to the first returned pair
    let fast_version: Option<(u32, u32, u32)> = match &c {
        Call::Add { h, list } => {
            let fr: Vec<&(u32, u32)> = list
                .iter()
                .filter(|(k, t)| {
                    w.local_ids.get(k) != Some(t)
                        && !tb.iter().any(|e| (e.k, e.t, e.h) == (*k, *t, *h))
                        && w.far.as_ref().map(|f| &w.d(*k) <= f).unwrap_or(true)
                })
                .collect();
            if fr.len() == 1 {
                Some((*h, fr[0].0, fr[0].1))
            } else {
                None
            }
        }
        _ => None,
    };
    for (idx, (h, k)) in raw.iter().enumerate() {
        let preferred = match fast_version {
            Some((fh, fk, ft)) if idx == 0 && (fh, fk) == (*h, *k) => {
                (0..fresh.len()).find(|i| !used[*i] && (fresh[*i].h, fresh[*i].k, fresh[*i].t) == (fh, fk, ft))
            }
            _ => None,
        };
        match preferred.or_else(|| (0..fresh.len()).find(|i| !used[*i] && fresh[*i].h == *h && fresh[*i].k == *k)) {
            Some(i) => {
                used[i] = true;
                ret.push((*h, *k, fresh[i].t));
            }
            None => {
                unresolved = true;
                ret.push((*h, *k, 9999));
            }
        }
    }
    let witness = join(ret.iter().map(|(h, k, t)| format!("{h}:{k}:{t}")).collect());
    let l = format!("{proto} {witness}");
    let hs = hist(w, &l);
    if unresolved {
        out.oracle_fail("no_dup_inflight", &hs, "a returned (holder, key) has no fresh in-flight entry of its own");
    }
    if used.iter().any(|u| !u) {
        out.oracle_fail("inflight_leaves", &hs, "an in-flight entry was created without being returned to the caller");
    }

    // ---- model-independent oracle ----
    let max = MAX_PARALLEL_FETCH_VALUE;
    let in_tb = |k: u32, t: u32, h: u32| tb.iter().any(|e| (e.k, e.t, e.h) == (k, t, h));
    // which old in-flight entries this very call is entitled to remove before scheduling
    let removed_by_call = |o: &E| -> bool {
        match &c {
            Call::Add { .. } => w.local_ids.get(&o.k) == Some(&o.t),
            Call::Put { k, .. } => o.k == *k,
            Call::Early { k, t } => (o.k, o.t) == (*k, *t),
            Call::Next => false,
        }
    };
    // the keys of an advertisement that are new to the node and to this holder's queue
    let (fresh_in, add_h): (Vec<(u32, u32)>, Option<u32>) = match &c {
        Call::Add { h, list } => (
            list.iter()
                .filter(|(k, t)| {
                    w.local_ids.get(k) != Some(t) && !in_tb(*k, *t, *h) && w.far.as_ref().map(|f| &w.d(*k) <= f).unwrap_or(true)
                })
                .cloned()
                .collect(),
            Some(*h),
        ),
        _ => (vec![], None),
    };
    let is_add = add_h.is_some();
    // the property speaks of the ADVERTISEMENT: a single-record list (fresh-record replication) may be fetched at once,
    // a periodic multi-record list never skips the range test — however many of its records are new
    let advert_len = match &c {
        Call::Add { list, .. } => list.len(),
        _ => 0,
    };
    let single_advert = advert_len == 1 && fresh_in.len() == 1;
    let fast = is_add
        && single_advert
        && ret.first().map(|(h, k, t)| Some(*h) == add_h && (*k, *t) == fresh_in[0]).unwrap_or(false);
    let batch: &[(u32, u32, u32)] = if fast { &ret[1..] } else { &ret[..] };

    // scheduled_not_held
    if is_add {
        for (_, k, t) in &ret {
            if w.local_ids.get(k) == Some(t) {
                out.oracle_fail("scheduled_not_held", &hs, &format!("key {k} type {t} scheduled although held locally with that type"));
            }
        }
        // the fresh key of a single-record advertisement is fetched at once unless that record version is already in flight
        if single_advert {
            let (k, t) = fresh_in[0];
            let inflight_before = ob.iter().any(|o| (o.k, o.t) == (k, t));
            let now_inflight = oa.iter().any(|o| (o.k, o.t) == (k, t));
            // the holder may have been reported as failed in the same call; the fetch is then still in flight
            if !inflight_before && !now_inflight {
                out.oracle_fail("scheduled_not_held", &hs, &format!("single new key {k} type {t} (not held with that type, not in flight) was not scheduled"));
            }
        }
    }
    // range_respected: "records taken from periodic multi-record advertisements must also lie within its responsible
    // distance" is judged on the ADVERTISEMENT's length (K-x-single-new-skips-range, repaired: a multi-record list with
    // exactly one new key used to take the single-key fast path and skip the range test).
    if let (Some(h), Some(r)) = (add_h, &w.range) {
        if advert_len != 1 {
            for e in ta.iter().filter(|e| e.h == h && !in_tb(e.k, e.t, e.h)) {
                if &w.d(e.k) > r {
                    out.oracle_fail("range_respected", &hs, &format!("key {} from a multi-key list queued although out of range", e.k));
                }
            }
            for (hh, k, t) in &ret {
                if !in_tb(*k, *t, *hh) && &w.d(*k) > r {
                    out.oracle_fail("range_respected", &hs, &format!("key {k} from a multi-key list scheduled although out of range"));
                }
            }
            if advert_len >= 2 && fresh_in.len() == 1 {
                out.count(if &w.d(fresh_in[0].0) > r { "range:multi-advert-one-new-key:out-of-range" } else { "range:multi-advert-one-new-key:in-range" });
            }
        }
    }
    // progress (take-up): every new in-range key of a multi-key list is queued for this holder, scheduled,
    // or already in flight afterwards — unless the holder was reported as timed out by this very call
    if let Some(h) = add_h {
        let holder_failed = evs.iter().any(|s| s.contains(&h));
        if !single_advert && !holder_failed {
            for (k, t) in &fresh_in {
                let in_range = w.range.as_ref().map(|r| &w.d(*k) <= r).unwrap_or(true);
                let taken = ta.iter().any(|e| (e.k, e.t, e.h) == (*k, *t, h)) || oa.iter().any(|o| (o.k, o.t) == (*k, *t));
                if in_range && !taken {
                    out.oracle_fail("progress", &hs, &format!("new in-range key {k} type {t} of a multi-key list was neither queued nor scheduled"));
                }
            }
        }
    }
    // full_respected
    check_full(w, &l, out);
    // no_dup_inflight
    for (i, (_, k, t)) in ret.iter().enumerate() {
        if ret[..i].iter().any(|(_, k2, t2)| (k2, t2) == (k, t)) {
            out.oracle_fail("no_dup_inflight", &hs, &format!("key {k} type {t} returned twice by one call"));
        }
        if let Some(o) = ob.iter().find(|o| (o.k, o.t) == (*k, *t)) {
            if o.dl > now && !removed_by_call(o) {
                out.oracle_fail("no_dup_inflight", &hs, &format!("key {k} type {t} scheduled again while its fetch from holder {} is still in flight", o.h));
            }
        }
    }
    // batch_cap
    if !batch.is_empty() && oa.len() > max {
        out.oracle_fail("batch_cap", &hs, &format!("batch scheduling left {} fetches in flight (limit {max})", oa.len()));
    }
    if oa.len() > max.max(ob.len() + usize::from(is_add)) {
        out.oracle_fail("batch_cap", &hs, &format!("in-flight set grew from {} to {} (limit {max})", ob.len(), oa.len()));
    }
    // closest_first
    for p in batch.windows(2) {
        if w.d(p[0].1) > w.d(p[1].1) {
            out.oracle_fail("closest_first", &hs, &format!("batch not sorted by distance: key {} before key {}", p[0].1, p[1].1));
        }
    }
    for e in ta.iter() {
        let waiting_for_slot = !oa.iter().any(|o| (o.k, o.t) == (e.k, e.t));
        if waiting_for_slot {
            if oa.len() < max {
                out.oracle_fail("closest_first", &hs, &format!("key {} type {} left queued although a fetch slot is free and it is not in flight", e.k, e.t));
            }
            if let Some(b) = batch.iter().find(|b| w.d(b.1) > w.d(e.k)) {
                out.oracle_fail("closest_first", &hs, &format!("key {} scheduled before the closer queued key {}", b.1, e.k));
            }
        }
    }
    // inflight_leaves
    match &c {
        Call::Put { k, t } => {
            if ta.iter().any(|e| (e.k, e.t) == (*k, *t)) {
                out.oracle_fail("inflight_leaves", &hs, &format!("key {k} type {t} still queued after the put notification"));
            }
            if oa.iter().any(|o| o.k == *k && o.dl < fresh_dl) {
                out.oracle_fail("inflight_leaves", &hs, &format!("key {k} still in flight after the put notification"));
            }
        }
        Call::Early { k, t } => {
            if ta.iter().any(|e| (e.k, e.t) == (*k, *t)) || oa.iter().any(|o| (o.k, o.t) == (*k, *t)) {
                out.oracle_fail("inflight_leaves", &hs, &format!("key {k} type {t} still queued or in flight after early completion"));
            }
        }
        _ => {}
    }
    for o in oa.iter() {
        if o.dl < start {
            out.oracle_fail("inflight_leaves", &hs, &format!("key {} type {} still in flight after its fetch deadline passed", o.k, o.t));
        }
    }
    // timeout_reports_and_drops
    let expect: BTreeSet<u32> = ob.iter().filter(|o| o.dl < start && !removed_by_call(o)).map(|o| o.h).collect();
    let want: Vec<BTreeSet<u32>> = if expect.is_empty() { vec![] } else { vec![expect.clone()] };
    if evs != want {
        out.oracle_fail("timeout_reports_and_drops", &hs, &format!("reported holders {evs:?}, timed-out holders {want:?}"));
    }
    if let Some(e) = ta.iter().find(|e| expect.contains(&e.h)) {
        out.oracle_fail("timeout_reports_and_drops", &hs, &format!("key {} still queued for the timed-out holder {}", e.k, e.h));
    }

    // distribution
    let opn = l.split(' ').next().unwrap_or("");
    out.count(&format!("{opn}:ret{}", ret.len().min(3)));
    if fast {
        out.count("add:fast-path");
    }
    if is_add && single_advert && !fast {
        out.count("add:fast-path-suppressed");
    }
    if !expect.is_empty() {
        out.count("timeout:reported");
    }
    if oa.len() >= max {
        out.count("cap:reached");
    }
    if oa.len() > max {
        out.count("cap:exceeded-by-fast-path");
    }
    if is_add {
        if let Call::Add { list, .. } = &c {
            out.count(if list.len() == 1 { "add:single" } else if list.is_empty() { "add:empty" } else { "add:multi" });
            if list.iter().any(|(k, t)| w.local_ids.get(k).map(|lt| lt != t).unwrap_or(false)) {
                out.count("add:held-other-type");
            }
        }
    }

    let fail = join(evs.iter().flat_map(|s| s.iter().map(|h| h.to_string())).collect());
    (l, dump(w, &witness, &fail, now))
}

// ---------------------------------------------------------------- generator

const AGES: &[u32] = &[1, 3, 10, 19, 20, 21, 40, 300, 879, 880, 881, 899, 900, 901];

fn gen_history(rng: &mut Rng, hno: u64, w: &mut Option<World>, sink: &mut dyn FnMut(&mut Option<World>, String)) {
    let big = rng.chance(1, 3);
    let nkeys: u32 = if big { rng.range(24, 48) as u32 } else { rng.range(3, 8) as u32 };
    let nholders: u32 = rng.range(2, 4) as u32;
    let ntypes: u32 = if big { 3 } else { 5 };
    let len = if big { rng.range(15, 40) } else { rng.range(15, 60) };
    sink(w, format!("new {}", hno % 7));
    for k in 0..nkeys {
        sink(w, format!("key {k}"));
    }
    for h in 0..nholders {
        if let Some(w) = w.as_mut() {
            w.peer(h);
        }
    }
    let pick_type = |rng: &mut Rng, k: u32| -> u32 {
        // most keys have a "natural" kind, so that the same (key, type) is advertised by several holders
        if rng.chance(3, 4) {
            match k % 3 {
                0 => 0,
                1 => 2 + (rng.below(2) as u32),
                _ => 1,
            }
        } else {
            rng.below(ntypes as u64) as u32
        }
    };
    let mut last_list: Option<String> = None;
    for _ in 0..len {
        let (tbf, ogf) = match w.as_ref() {
            Some(w) => (w.tbf(), w.ogf()),
            None => (vec![], vec![]),
        };
        let roll = rng.below(100);
        let line = if roll < 40 {
            let h = rng.below(nholders as u64) as u32;
            let n = match rng.below(10) {
                0..=3 => 1,
                4 => 0,
                5..=6 => 2,
                _ => {
                    if big {
                        rng.range(3, nkeys as u64) as usize
                    } else {
                        rng.range(2, 6) as usize
                    }
                }
            };
            let mut v = vec![];
            for _ in 0..n {
                let k = rng.below(nkeys as u64) as u32;
                v.push(format!("{k}:{}", pick_type(rng, k)));
            }
            if n >= 2 && rng.chance(1, 10) {
                let d = v[0].clone();
                v.push(d);
            }
            // the same periodic list is often advertised by several holders
            let list = match (&last_list, n >= 2 && rng.chance(2, 5)) {
                (Some(l), true) => l.clone(),
                _ => join(v),
            };
            if n >= 2 {
                last_list = Some(list.clone());
            }
            format!("add {h} {list}")
        } else if roll < 55 {
            // completion of an in-flight fetch (mostly), preceded by the store holding the record
            if !ogf.is_empty() && rng.chance(4, 5) {
                let e = rng.pick(&ogf).clone();
                let t = if rng.chance(1, 6) { pick_type(rng, e.k) } else { e.t };
                if rng.chance(4, 5) {
                    sink(w, format!("local {} {t}", e.k));
                }
                format!("put {} {t}", e.k)
            } else {
                let k = rng.below(nkeys as u64) as u32;
                format!("put {k} {}", pick_type(rng, k))
            }
        } else if roll < 63 {
            if !ogf.is_empty() && rng.chance(4, 5) {
                let e = rng.pick(&ogf).clone();
                let t = if rng.chance(1, 6) { pick_type(rng, e.k) } else { e.t };
                format!("early {} {t}", e.k)
            } else {
                let k = rng.below(nkeys as u64) as u32;
                format!("early {k} {}", pick_type(rng, k))
            }
        } else if roll < 73 {
            // a backlog behind timed-out fetches is what makes a bare `next` schedule something
            if !tbf.is_empty() && !ogf.is_empty() && rng.chance(1, 2) {
                sink(w, format!("age {}", rng.pick(&[19u32, 20, 21])));
            }
            "next".to_string()
        } else if roll < 85 {
            format!("age {}", rng.pick(AGES))
        } else if roll < 91 {
            let k = rng.below(nkeys as u64) as u32;
            let d = w.as_ref().map(|w| w.d(k)).unwrap_or_default();
            let one = BigUint::from(1u32);
            let r = match rng.below(8) {
                0 => d.clone() + &one,
                1 => {
                    if d > BigUint::default() {
                        d.clone() - &one
                    } else {
                        d.clone()
                    }
                }
                2 => BigUint::default(),
                3 => (BigUint::from(1u32) << 256) - &one,
                4 => BigUint::from_bytes_be(&rng.bytes(32)) >> (rng.below(4) as usize),
                _ => d.clone(),
            };
            format!("range {r}")
        } else if roll < 95 {
            if rng.chance(1, 6) {
                "full none".to_string()
            } else if !tbf.is_empty() && rng.chance(1, 2) {
                format!("full {}", rng.pick(&tbf).k)
            } else {
                format!("full {}", rng.below(nkeys as u64))
            }
        } else if rng.chance(2, 3) {
            let k = rng.below(nkeys as u64) as u32;
            format!("local {k} {}", pick_type(rng, k))
        } else {
            format!("unlocal {}", rng.below(nkeys as u64))
        };
        sink(w, line);
    }
}

/// past minimal failures and hand-written corner cases (proto-op lines)
fn corpus() -> Vec<&'static str> {
    vec![
        // F-g: a held key advertised with another record type (single-key and multi-key list)
        "new 1", "key 0", "key 1", "key 2", "local 1 2", "add 0 1:3", "local 2 2", "add 1 2:3,0:0", "add 1 1:2",
        // single-key fast path while the same record version is in flight from another holder
        "new 2", "key 0", "key 1", "add 0 0:0", "add 1 0:0", "add 1 0:2", "put 0 0", "add 1 0:0",
        // range boundary: a multi-key list with a key exactly on, just inside and just outside the range
        "new 3", "key 0", "key 1", "key 2", "key 3", "range 0", "add 0 0:0,1:0", "add 0 2:0", "next",
        // K-x (repaired): a multi-record list with exactly one new key, out of range: neither fetched nor queued
        "new 6", "key 0", "key 1", "key 2", "range 0", "local 0 0", "local 1 0", "add 0 0:0,1:0,2:0",
        // timeout: holder 0 never answers; its queued entries go and it is reported once
        "new 4", "key 0", "key 1", "key 2", "key 3", "add 0 0:0", "add 0 1:0,2:0,3:0", "age 19", "next", "age 1", "add 0 1:0,2:0", "next", "age 20", "next",
        // pending timeout of queued entries
        "new 5", "key 0", "key 1", "key 2", "add 0 0:0", "add 1 0:0,1:0", "add 2 0:0,2:0", "age 899", "add 0 -", "age 1", "add 0 -", "next",
        // put removes every type in flight for the key but only the same type from the queue
        "new 6", "key 0", "key 1", "add 0 0:2,0:3", "add 1 0:2,0:3,1:0", "put 0 2", "early 0 3", "early 1 0",
        // one call returns the same (holder, key) twice: fast path (type 3) first, then the queued type 2
        "new 2", "key 0", "key 1", "add 0 0:2", "add 1 0:2,0:2", "age 20", "add 1 0:3",
        // fullness: farthest only shrinks
        "new 0", "key 0", "key 1", "key 2", "key 3", "add 0 0:0,1:0,2:0,3:0", "full 2", "full 3", "full 0", "add 1 1:0,2:0,3:0", "add 1 3:0",
    ]
}

fn main() {
    let args = &common::parse_args();
    let mut out = Out::new(&args.out);
    std::panic::set_hook(Box::new(|_| {}));
    let mut world: Option<World> = None;
    let mut slow = 0u64;
    let nops = std::cell::Cell::new(0u64);
    {
        let mut run = |w: &mut Option<World>, proto: String| {
            nops.set(nops.get() + 1);
            if proto.starts_with("new ") {
                if let Some(old) = w.as_ref() {
                    if old.started.elapsed() > Duration::from_millis(700) {
                        slow += 1;
                    }
                }
            }
            let (l, r) = exec(w, &proto, &mut out);
            let op = l.split(' ').next().unwrap_or("").to_string();
            out.count(&format!("op:{op}"));
            if matches!(op.as_str(), "add" | "put" | "early" | "next") {
                out.nontrivial_case(&format!("{l}|{r}"));
            }
            out.line(l, r);
        };
        if let Some(p) = &args.replay {
            for l in common::read_lines(p) {
                // derived parts (distances, choice witnesses) are regenerated
                let ws: Vec<&str> = l.split_whitespace().collect();
                let keep = match ws.first().copied() {
                    Some("add") => 3,
                    Some("put") | Some("early") => 3,
                    Some("next") => 1,
                    Some("key") => 2,
                    _ => ws.len(),
                };
                run(&mut world, ws[..keep.min(ws.len())].join(" "));
            }
        } else {
            for l in corpus() {
                run(&mut world, l.to_string());
            }
            let mut rng = Rng::new(args.seed);
            let mut hno = 0u64;
            let base = nops.get();
            while nops.get() - base < args.n {
                gen_history(&mut rng, hno, &mut world, &mut run);
                hno += 1;
            }
        }
    }
    if slow > 0 {
        out.notes.push(format!("{slow} histories took longer than 0.7 s of real time; sub-second clock assumption at risk"));
    }
    out.finish();
}

