//! C01 / C02 / C10 harness: drives the REAL `NodeRecordStore` (real files in a temp dir, real AES-GCM-SIV)
//! through the cfg-guarded pass-through hooks `ant_networking::verif::record_store`, prints one canonical
//! output line per operation for the differential run against the Lean model (`drv_store`), and evaluates
//! model-independent oracles for the clauses of C01, C02 and C10 on the observable behaviour.
//!
//! Scheduling is driven, not sampled, and needs no hook: every store call is made while a fresh
//! current-thread tokio runtime ("lane", `event_interval = 1`) is the ambient runtime, so the tasks the store
//! spawns (disk write, file delete, metrics flush, and the command-sender a finished write spawns in turn)
//! run only when the harness calls `lane.block_on(yield_now())` — exactly one task per call. The harness owns
//! the receiver of the `LocalSwarmCmd` channel, so it also decides when each `AddLocalRecordAsStored`
//! is handled (`deliver`). Tasks spawned by ONE store call complete in spawn order relative to each other
//! (they share a lane); tasks of different calls interleave arbitrarily.
//!
//! Op lines (inputs only; `@` forms are resolved by the harness before the line is recorded):
//!   init <max> <cache> <peer>     fresh store: max_records, records_cache_size, identity/seed derived from <peer>
//!   key <k> <dist|@>              declares key k; dist = XOR distance key↔node (sha2 + XOR, computed here)
//!   put <k> <v> <rt>              put_verified(key k, value #v, rt = c | s | n<v'>)   -> ok | dedup | max
//!   remove <k>                    RecordStore::remove                                  -> ok
//!   run <id>                      spawned task <id> runs to completion                 -> ran | ran add | ran fail | illegal-choice | no-task
//!   deliver <id>                  the command sent by write task <id> is handled       -> ok | illegal-choice | no-note
//!   setrange <r|@k|@k+|@k-> | cleanup | payment                                        -> ok
//!   crash [<id>:<n> ...]          node stops; in-flight write <id> has written n bytes; store reopened on the same dir
//!   start <netid>                 node stops if running; `check_and_wipe_storage_dir_if_necessary(root, storage, "<netid>")`
//!                                 (what `build_node` runs at every start), then the store is opened   -> started v=<version file>
//!   start <netid> interrupt [<b>] the same start in a child process with RLIMIT_FSIZE = b (default 0): the kernel kills it
//!                                 at the first write that would take a regular file beyond b bytes; the node stays down
//!                                                                                       -> killed v=.. | exited v=..
//!   vfile                         content of <root>/network_key_version                -> absent | empty | <text>
//!   get <k> | contains <k> | addrs | ls | dist | far | cache | pending | metrics <k>   observations
//! Value #v: `v % 3 = 0` chunk header, `1` another valid record header, `2` no valid header; bytes derived from v.
use ant_evm::U256;
use ant_networking::verif::record_store as rs;
use ant_networking::verif::LocalSwarmCmd;
use ant_networking::verif::{driver as dhook, event as hook};
use ant_networking::{Network, NetworkBuilder, NetworkError, NetworkEvent, NodeRecordStore, SwarmDriver};
use ant_protocol::storage::RecordType;
use ant_protocol::NetworkAddress;
use common::{Out, Rng};
use libp2p::identity::Keypair;
use libp2p::kad::{Record, RecordKey};
use libp2p::PeerId;
use num_bigint::BigUint;
use sha2::{Digest, Sha256};
use std::collections::{BTreeMap, BTreeSet, HashMap, HashSet, VecDeque};
use std::panic::{catch_unwind, AssertUnwindSafe};
use std::path::{Path, PathBuf};
use std::str::FromStr;
use tokio::sync::mpsc;
use xor_name::XorName;

fn sha(parts: &[&[u8]]) -> [u8; 32] {
    let mut h = Sha256::new();
    for p in parts {
        h.update(p);
    }
    h.finalize().into()
}

/// key id -> record key bytes. Most keys are 32 bytes; some ids map to keys of 2, 8, 31, 33, 34 (PeerId-like) and
/// 64 bytes (record keys are arbitrary byte strings). Keys of one group of three share their first 20 bytes.
fn key_len(k: u64) -> usize {
    match k % 10 {
        0 => 8,
        1 => 34,
        2 => 31,
        3 => 33,
        4 => 64,
        5 => 2,
        _ => 32,
    }
}
fn key_bytes(k: u64) -> Vec<u8> {
    let g = sha(&[b"grp", &(k / 3).to_le_bytes()]);
    let s = sha(&[b"key", &k.to_le_bytes()]);
    let s2 = sha(&[b"key2", &k.to_le_bytes()]);
    let n = key_len(k);
    let mut v = if n >= 32 { g[..20].to_vec() } else { vec![] };
    v.extend_from_slice(&s);
    v.extend_from_slice(&s2);
    v.truncate(n);
    v
}

/// length in bytes of value #v (header included); the Lean model has the same function (`valLen`, op `len`)
fn val_len(v: u64) -> usize {
    (if v >= 1000 {
        (v - 1000) / 3
    } else if v == 2 {
        0
    } else if v == 5 {
        1
    } else if v == 8 {
        2
    } else if v % 7 == 0 {
        10 + v % 8
    } else if v % 7 == 5 {
        200 + (v * 13) % 200
    } else if v % 7 == 6 {
        1000 + (v * 131) % 3000
    } else {
        10 + (v * 37) % 110
    }) as usize
}

/// value id -> record value bytes: 3-byte header window decided by v % 3 (0 chunk, 1 other valid kind, 2 invalid),
/// then the id, then filler up to exactly `val_len(v)` bytes
fn value_bytes(v: u64) -> Vec<u8> {
    let len = val_len(v);
    let mut out = match v % 3 {
        0 => vec![0x91, 0x01],
        1 => vec![0x91, [2u8, 3, 5, 0, 4, 6, 7][((v / 3) % 7) as usize]],
        _ => {
            if (v / 3) % 2 == 0 {
                vec![0x91, 0x2a]
            } else {
                vec![0xc1, 0x00]
            }
        }
    };
    out.extend(v.to_le_bytes());
    let mut r = Rng::new(v.wrapping_mul(0x9E37) ^ 0xABCD);
    while out.len() < len {
        out.push(r.next() as u8);
    }
    out.truncate(len);
    out
}

/// the record type `PutLocalRecord`'s handler derives from the header of value #v (None: it refuses the record)
fn handler_rt(v: u64) -> Option<String> {
    if val_len(v) < 3 {
        return None;
    }
    match v % 3 {
        0 => Some("c".into()),
        1 => match [2u8, 3, 5, 0, 4, 6, 7][((v / 3) % 7) as usize] {
            2 | 3 => Some(format!("n{v}")),
            5 => Some("s".into()),
            _ => None,
        },
        _ => None,
    }
}

fn file_len(v: u64) -> usize {
    value_bytes(v).len() + if rs::ENCRYPT_RECORDS { 16 } else { 0 }
}

#[derive(Clone, Debug, PartialEq)]
enum TKind {
    Write { k: u64, v: u64 },
    Delete { k: u64 },
    Flush { n: u64 },
    Unknown,
}
impl TKind {
    fn key(&self) -> Option<u64> {
        match self {
            TKind::Write { k, .. } | TKind::Delete { k } => Some(*k),
            _ => None,
        }
    }
}

struct Lane {
    rt: tokio::runtime::Runtime,
    tasks: VecDeque<(u64, TKind)>,
    /// cmd backend: the flush task `build_node` spawned sits in the driver's own runtime, which the harness never
    /// runs (it also holds libp2p's tasks); it stays pending for good
    frozen: bool,
}

#[derive(Clone, Debug, PartialEq)]
enum Ev {
    Put(u64, String),
    Removed,
}

struct World {
    root: tempfile::TempDir,
    storage: PathBuf,
    peer: PeerId,
    peer_hash: [u8; 32],
    seed16: [u8; 16],
    max: usize,
    cache: usize,
    maxval: usize,
    /// bare backend: the store itself; cmd backend: a real node `SwarmDriver` (never run) whose command
    /// handlers are driven by the harness
    bare: Option<Box<NodeRecordStore>>,
    driver: Option<Box<SwarmDriver>>,
    network: Option<Network>,
    events: Option<mpsc::Receiver<NetworkEvent>>,
    base_rt: Option<tokio::runtime::Runtime>,
    store_ptr: *mut NodeRecordStore,
    use_cmd: bool,
    peer_seed: u64,
    /// `RemoveFailedLocalRecord` handled in a row (the handler terminates the node after 5)
    removes_in_a_row: u32,
    /// small command channel: the harness does not take notifications off the channel while tasks run (`run`),
    /// only before the other operations; a notification that finds the channel full waits in its sender task
    defer: bool,
    /// lanes whose sender task is waiting for room on the channel (as of the last `run`)
    blocked_senders: usize,
    /// write tasks that ran and whose notification has not been received yet, in run order: (task id, key)
    awaiting: VecDeque<(u64, u64)>,
    cmd_tx: mpsc::Sender<LocalSwarmCmd>,
    cmd_rx: mpsc::Receiver<LocalSwarmCmd>,
    ev_tx: mpsc::Sender<NetworkEvent>,
    _ev_rx: mpsc::Receiver<NetworkEvent>,
    lanes: Vec<Lane>,
    notes: Vec<(u64, u64, LocalSwarmCmd)>,
    next_id: u64,
    keys: BTreeMap<u64, (RecordKey, BigUint)>,
    key_ids: HashMap<Vec<u8>, u64>,
    vals: HashMap<Vec<u8>, u64>,
    hashes: HashMap<XorName, u64>,
    // ---- oracle bookkeeping (independent of the model) ----
    hist: Vec<String>,
    puts: HashMap<u64, Vec<u64>>,
    last_event: HashMap<u64, Ev>,
    taint: HashSet<u64>,
    /// keys whose record file is what a failed write left behind (until a later write / delete of the key completes)
    disk_taint: HashSet<u64>,
    /// no eviction, refusal, removal in flight or crash so far: the settled state is schedule independent
    clean: bool,
    /// every put so far happened with no write/notification in flight, and no crash
    disciplined: bool,
    crashed: bool,
    /// false after an interrupted start: the node is down until a `start` completes
    up: bool,
    /// network id text of the last start that completed (None: no start-up check has run on this root yet)
    net: Option<String>,
    /// every start since the node was last running used the id in `net`
    same_id_streak: bool,
    /// what must hold after the next completed same-id start, from what the harness knew when the node stopped
    start_expect: Vec<(u64, Option<u64>)>,
    /// file deletions that were still pending when the node stopped (crash / start), summed over the history
    lost_deletes: usize,
    /// `payment` operations since `init`
    received: u64,
    payments: u64,
    hist_file: Option<u64>,
    range: Option<BigUint>,
    fails: Vec<(String, String)>,
    counts: Vec<(String, u64)>,
}

/// Scratch directories live under the run's output directory, NOT under /tmp: a `NodeRecordStore` opened
/// with `NodeRecordStoreConfig::default()` (storage_dir = temp_dir) by any concurrently running test or
/// node walks /tmp recursively at start-up and deletes every hex-named file it cannot decrypt.
static SCRATCH: std::sync::OnceLock<PathBuf> = std::sync::OnceLock::new();

fn scratch_dir(prefix: &str) -> tempfile::TempDir {
    let base = SCRATCH.get().cloned().unwrap_or_else(std::env::temp_dir);
    std::fs::create_dir_all(&base).expect("scratch base");
    tempfile::Builder::new().prefix(prefix).tempdir_in(base).expect("tempdir")
}

impl Drop for World {
    fn drop(&mut self) {
        self.lanes.clear();
        self.close();
    }
}

fn new_lane_rt() -> tokio::runtime::Runtime {
    tokio::runtime::Builder::new_current_thread()
        .event_interval(1)
        .build()
        .expect("runtime")
}

/// A disk fault placed on ONE spawned write task (the process is single-threaded while a lane runs).
/// `Open`: RLIMIT_NOFILE = 0 while the task runs — `fs::write`'s open fails (EMFILE) before it creates or truncates
/// anything (a node out of file descriptors). `Full(b)`: RLIMIT_FSIZE = b with SIGXFSZ ignored — the open truncates
/// the file, the first b bytes are written, the rest fails with EFBIG (a full disk / quota).
#[derive(Clone, Copy, Debug, PartialEq)]
enum Fault {
    Open,
    Full(u64),
}

struct FaultGuard {
    fault: Option<Fault>,
    old: libc::rlimit,
    old_sig: libc::sighandler_t,
}
impl FaultGuard {
    fn set(fault: Option<Fault>) -> FaultGuard {
        let mut g = FaultGuard { fault, old: libc::rlimit { rlim_cur: 0, rlim_max: 0 }, old_sig: libc::SIG_DFL };
        // SAFETY: plain libc calls on this process's own limits
        unsafe {
            match fault {
                None => {}
                Some(Fault::Open) => {
                    libc::getrlimit(libc::RLIMIT_NOFILE, &mut g.old);
                    let lim = libc::rlimit { rlim_cur: 0, rlim_max: g.old.rlim_max };
                    libc::setrlimit(libc::RLIMIT_NOFILE, &lim);
                }
                Some(Fault::Full(b)) => {
                    g.old_sig = libc::signal(libc::SIGXFSZ, libc::SIG_IGN);
                    libc::getrlimit(libc::RLIMIT_FSIZE, &mut g.old);
                    let lim = libc::rlimit { rlim_cur: b as libc::rlim_t, rlim_max: g.old.rlim_max };
                    libc::setrlimit(libc::RLIMIT_FSIZE, &lim);
                }
            }
        }
        g
    }
}
impl Drop for FaultGuard {
    fn drop(&mut self) {
        unsafe {
            match self.fault {
                None => {}
                Some(Fault::Open) => {
                    libc::setrlimit(libc::RLIMIT_NOFILE, &self.old);
                }
                Some(Fault::Full(_)) => {
                    libc::setrlimit(libc::RLIMIT_FSIZE, &self.old);
                    // the `start … interrupt` child relies on the default action (ignored signals survive exec)
                    libc::signal(libc::SIGXFSZ, self.old_sig);
                }
            }
        }
    }
}

fn u256_to_big(u: U256) -> BigUint {
    BigUint::from_bytes_be(&u.to_be_bytes::<32>())
}
fn big_to_u256(b: &BigUint) -> U256 {
    U256::from_str(&b.to_string()).expect("u256")
}

impl World {
    fn new(max: usize, cache: usize, peer_seed: u64, maxval: usize, use_cmd: bool, chan: Option<usize>) -> World {
        let root = scratch_dir("store-");
        let storage = root.path().join("record_store");
        std::fs::create_dir_all(&storage).expect("mkdir");
        let mut sk = sha(&[b"peer", &peer_seed.to_le_bytes()]);
        let kp = Keypair::ed25519_from_bytes(&mut sk).expect("keypair");
        let peer = PeerId::from(kp.public());
        let peer_hash = sha(&[&peer.to_bytes()]);
        let mut seed16 = [0u8; 16];
        seed16.copy_from_slice(&sha(&[b"seed", &peer_seed.to_le_bytes()])[..16]);
        let (cmd_tx, cmd_rx) = mpsc::channel(chan.unwrap_or(100_000));
        let (ev_tx, _ev_rx) = mpsc::channel(16);
        let mut w = World {
            root,
            storage,
            peer,
            peer_hash,
            seed16,
            max,
            cache,
            maxval,
            bare: None,
            driver: None,
            network: None,
            events: None,
            base_rt: None,
            store_ptr: std::ptr::null_mut(),
            use_cmd,
            peer_seed,
            removes_in_a_row: 0,
            defer: chan.is_some(),
            blocked_senders: 0,
            awaiting: VecDeque::new(),
            cmd_tx,
            cmd_rx,
            ev_tx,
            _ev_rx,
            lanes: vec![],
            notes: vec![],
            next_id: 0,
            keys: BTreeMap::new(),
            key_ids: HashMap::new(),
            vals: HashMap::new(),
            hashes: HashMap::new(),
            hist: vec![],
            puts: HashMap::new(),
            last_event: HashMap::new(),
            taint: HashSet::new(),
            disk_taint: HashSet::new(),
            clean: true,
            disciplined: true,
            crashed: false,
            up: true,
            net: None,
            same_id_streak: false,
            start_expect: vec![],
            lost_deletes: 0,
            received: 0,
            payments: 0,
            hist_file: None,
            range: None,
            fails: vec![],
            counts: vec![],
        };
        w.open();
        w
    }

    fn config(&self, root: &Path) -> rs::NodeRecordStoreConfig {
        rs::NodeRecordStoreConfig {
            storage_dir: root.join("record_store"),
            historic_quote_dir: root.to_path_buf(),
            max_records: self.max,
            max_value_bytes: self.maxval,
            records_cache_size: self.cache,
            encryption_seed: self.seed16,
        }
    }

    /// `with_config` on the directory; its flush task becomes a pending task
    fn st(&self) -> &NodeRecordStore {
        assert!(!self.store_ptr.is_null(), "store");
        // SAFETY: points into `self.bare` / `self.driver` (boxed, alive until `close`), no other reference is live
        unsafe { &*self.store_ptr }
    }
    fn st_mut(&mut self) -> &mut NodeRecordStore {
        assert!(!self.store_ptr.is_null(), "store");
        unsafe { &mut *self.store_ptr }
    }

    fn keypair(&self) -> Keypair {
        let mut sk = sha(&[b"peer", &self.peer_seed.to_le_bytes()]);
        Keypair::ed25519_from_bytes(&mut sk).expect("keypair")
    }

    /// `with_config` on the directory (bare backend) or `NetworkBuilder::build_node` on it (cmd backend);
    /// the flush task of `with_config` becomes a pending task
    fn open(&mut self) {
        if self.use_cmd {
            let base = tokio::runtime::Builder::new_current_thread().enable_all().build().expect("runtime");
            let (network, events, driver) = {
                let _g = base.enter();
                let mut b = NetworkBuilder::new(self.keypair(), true);
                b.listen_addr("127.0.0.1:0".parse().expect("addr"));
                b.build_node(self.root.path().to_path_buf()).expect("build_node")
            };
            let mut driver = Box::new(driver);
            let (max, cache) = (self.max, self.cache);
            let store = rs::node_store_mut(&mut driver).expect("node store");
            rs::set_capacities(store, max, cache);
            self.payments = rs::received_payment_count(store) as u64;
            self.store_ptr = store as *mut NodeRecordStore;
            self.driver = Some(driver);
            self.network = Some(network);
            self.events = Some(events);
            self.base_rt = Some(base);
            // `with_config` writes the metrics file in place: nothing is pending; the call takes one id
            self.hist_file = Some(self.payments);
            self.next_id += 1;
            return;
        }
        let rt = new_lane_rt();
        let cfg = self.config(self.root.path());
        let store = {
            let _g = rt.enter();
            rs::with_config(self.peer, cfg, self.ev_tx.clone(), self.cmd_tx.clone())
        };
        self.payments = rs::received_payment_count(&store) as u64;
        let mut store = Box::new(store);
        self.store_ptr = &mut *store as *mut NodeRecordStore;
        self.bare = Some(store);
        let n = self.payments;
        if rt.metrics().num_alive_tasks() == 0 {
            // the metrics file is written in place by `with_config`: nothing is pending; the call takes one id
            self.hist_file = Some(n);
            self.next_id += 1;
        } else {
            self.push_lane(rt, vec![TKind::Flush { n }]);
        }
    }

    /// the node stops
    fn close(&mut self) {
        self.store_ptr = std::ptr::null_mut();
        self.bare = None;
        if let Some(base) = self.base_rt.take() {
            {
                let _g = base.enter();
                self.driver = None;
                self.network = None;
                self.events = None;
            }
            base.shutdown_background();
        }
    }

    /// hand a command to the real `SwarmDriver::handle_local_cmd` while `rt` is the ambient runtime
    fn handle(&mut self, rt: &tokio::runtime::Runtime, cmd: LocalSwarmCmd) -> Result<(), NetworkError> {
        let _g = rt.enter();
        let r = hook::handle_local_cmd(self.driver.as_mut().expect("driver"), cmd);
        if let Some(ev) = self.events.as_mut() {
            while ev.try_recv().is_ok() {}
        }
        r
    }

    /// register the tasks a call spawned; `kinds` is what the harness infers, padded/truncated to the real count
    fn push_lane(&mut self, rt: tokio::runtime::Runtime, kinds: Vec<TKind>) -> bool {
        let alive = rt.metrics().num_alive_tasks();
        let consistent = alive == kinds.len();
        let mut tasks = VecDeque::new();
        for i in 0..alive {
            let kind = if consistent { kinds[i].clone() } else { TKind::Unknown };
            tasks.push_back((self.next_id, kind));
            self.next_id += 1;
        }
        if alive > 0 {
            self.lanes.push(Lane { rt, tasks, frozen: false });
        }
        consistent
    }

    fn dist_of(&self, key: &RecordKey) -> BigUint {
        let kh = sha(&[key.as_ref()]);
        let x: Vec<u8> = kh.iter().zip(self.peer_hash.iter()).map(|(a, b)| a ^ b).collect();
        BigUint::from_bytes_be(&x)
    }

    fn key_id(&self, key: &RecordKey) -> String {
        match self.key_ids.get(key.as_ref()) {
            Some(k) => k.to_string(),
            None => format!("?{}", hex::encode(key.as_ref())),
        }
    }

    fn rt_str(&self, rt: &RecordType) -> String {
        match rt {
            RecordType::Chunk => "c".into(),
            RecordType::Scratchpad => "s".into(),
            RecordType::NonChunk(h) => match self.hashes.get(h) {
                Some(v) => format!("n{v}"),
                None => "n?".into(),
            },
        }
    }

    fn learn_value(&mut self, v: u64) -> Vec<u8> {
        let b = value_bytes(v);
        self.vals.entry(b.clone()).or_insert(v);
        self.hashes.entry(XorName::from_content(&b)).or_insert(v);
        b
    }

    fn parse_rt(&mut self, s: &str) -> Option<RecordType> {
        match s {
            "c" => Some(RecordType::Chunk),
            "s" => Some(RecordType::Scratchpad),
            _ => {
                let v: u64 = s.strip_prefix('n')?.parse().ok()?;
                let b = self.learn_value(v);
                Some(RecordType::NonChunk(XorName::from_content(&b)))
            }
        }
    }

    fn listed(&self) -> BTreeMap<u64, String> {
        let store = self.st();
        let mut m = BTreeMap::new();
        for (key, (_addr, rt)) in rs::record_addresses_ref(store) {
            if let Some(k) = self.key_ids.get(key.as_ref()) {
                m.insert(*k, self.rt_str(&rt));
            } else {
                m.insert(u64::MAX, "?".into());
            }
        }
        m
    }

    fn get_str(&self, k: u64) -> String {
        let store = self.st();
        let key = &self.keys[&k].0;
        match rs::get(store, key) {
            None => "none".into(),
            Some(r) => {
                let extra = if r.key != *key || r.publisher.is_some() || r.expires.is_some() { "!meta" } else { "" };
                match self.vals.get(&r.value) {
                    Some(v) => format!("some {v}{extra}"),
                    None => format!("some ?{}{extra}", hex::encode(&r.value[..r.value.len().min(12)])),
                }
            }
        }
    }

    fn ls(&self) -> Vec<String> {
        let mut known = BTreeSet::new();
        let mut unknown = BTreeSet::new();
        if let Ok(rd) = std::fs::read_dir(&self.storage) {
            for e in rd.flatten() {
                let name = e.file_name().to_string_lossy().to_string();
                match hex::decode(&name).ok().and_then(|b| self.key_ids.get(&b).copied()) {
                    Some(k) => {
                        known.insert(k);
                    }
                    None => {
                        unknown.insert(format!("?{name}"));
                    }
                }
            }
        }
        known.iter().map(|k| k.to_string()).chain(unknown).collect()
    }

    fn pending_tasks(&self) -> Vec<(u64, TKind)> {
        let mut v: Vec<(u64, TKind)> = self.lanes.iter().flat_map(|l| l.tasks.iter().cloned()).collect();
        v.sort_by_key(|t| t.0);
        v
    }

    fn find_task(&self, id: u64) -> Option<(usize, usize)> {
        for (li, l) in self.lanes.iter().enumerate() {
            if let Some(pos) = l.tasks.iter().position(|t| t.0 == id) {
                return Some((li, pos));
            }
        }
        None
    }

    /// the harness's own legality: oldest pending task of its key
    fn legal_run(&self, id: u64, kind: &TKind) -> bool {
        match kind.key() {
            None => true,
            Some(k) => !self.pending_tasks().iter().any(|(i, t)| *i < id && t.key() == Some(k)),
        }
    }

    fn runnable(&self) -> Vec<u64> {
        self.lanes
            .iter()
            .filter(|l| !l.frozen)
            .filter_map(|l| l.tasks.front().cloned())
            .filter(|(id, kind)| self.legal_run(*id, kind))
            .map(|(id, _)| id)
            .collect()
    }

    fn deliverable(&self) -> Vec<u64> {
        let mut seen = HashSet::new();
        let mut v = vec![];
        for (id, k, _) in &self.notes {
            if seen.insert(*k) {
                v.push(*id);
            }
        }
        v
    }

    fn inflight(&self, k: u64) -> bool {
        self.pending_tasks().iter().any(|(_, t)| matches!(t, TKind::Write { k: kk, .. } if *kk == k))
            || self.notes.iter().any(|(_, kk, _)| *kk == k)
            || self.awaiting.iter().any(|(_, kk)| *kk == k)
    }
    fn any_inflight(&self) -> bool {
        self.pending_tasks().iter().any(|(_, t)| matches!(t, TKind::Write { .. })) || !self.notes.is_empty() || !self.awaiting.is_empty()
    }
    fn pending_for(&self, k: u64) -> bool {
        self.pending_tasks().iter().any(|(_, t)| t.key() == Some(k))
    }

    /// run the first task of lane `li` (and the sender task a write spawns); returns the commands that arrived
    fn step_lane(&mut self, li: usize) -> Vec<LocalSwarmCmd> {
        self.step_lane_fault(li, None)
    }

    /// the same, with a disk fault in force while the task itself runs (not while its command sender runs)
    fn step_lane_fault(&mut self, li: usize, fault: Option<Fault>) -> Vec<LocalSwarmCmd> {
        let lane = &mut self.lanes[li];
        {
            let _fault = FaultGuard::set(fault);
            lane.rt.block_on(tokio::task::yield_now());
        }
        let (_id, kind) = lane.tasks.pop_front().expect("task");
        if let TKind::Flush { n } = kind {
            self.hist_file = Some(n);
        }
        let lane = &mut self.lanes[li];
        // a finished write spawns the task that pushes the command on the channel: same lane, runs next
        let mut guard = 0;
        while lane.rt.metrics().num_alive_tasks() > lane.tasks.len() && guard < 4 {
            lane.rt.block_on(tokio::task::yield_now());
            guard += 1;
        }
        let mut cmds = vec![];
        if !self.defer {
            while let Ok(c) = self.cmd_rx.try_recv() {
                cmds.push(c);
            }
        }
        if let Some(d) = self.driver.as_mut() {
            // the driver's own `LocalSwarmCmd` receiver: what `SwarmDriver::run` would take next
            while let Some(c) = dhook::try_recv_local_cmd(d) {
                cmds.push(c);
            }
        }
        if self.lanes[li].tasks.is_empty() && self.lanes[li].rt.metrics().num_alive_tasks() == 0 {
            self.lanes.remove(li);
        }
        cmds
    }

    /// small-channel histories: take what is on the command channel, let waiting sender tasks proceed (oldest
    /// first — tokio grants channel permits in waiting order), repeat until nothing moves
    fn pump(&mut self) {
        if !self.defer {
            return;
        }
        loop {
            let mut progress = false;
            while let Ok(c) = self.cmd_rx.try_recv() {
                progress = true;
                let key = match &c {
                    LocalSwarmCmd::AddLocalRecordAsStored { key, .. } | LocalSwarmCmd::RemoveFailedLocalRecord { key } => Some(key.clone()),
                    _ => None,
                };
                let k = key.and_then(|key| self.key_ids.get(key.as_ref()).copied()).unwrap_or(u64::MAX);
                // per-key FIFO: the notification belongs to the oldest write of that key still waiting for one
                let id = match self.awaiting.iter().position(|(_, kk)| *kk == k) {
                    Some(p) => self.awaiting.remove(p).expect("pos").0,
                    None => u64::MAX - self.notes.len() as u64,
                };
                self.notes.push((id, k, c));
            }
            for lane in self.lanes.iter_mut() {
                let before = lane.rt.metrics().num_alive_tasks();
                if before > lane.tasks.len() {
                    lane.rt.block_on(tokio::task::yield_now());
                    if lane.rt.metrics().num_alive_tasks() < before {
                        progress = true;
                    }
                }
            }
            self.lanes.retain(|l| !l.tasks.is_empty() || l.frozen || l.rt.metrics().num_alive_tasks() > 0);
            if !progress {
                break;
            }
        }
        self.blocked_senders = self.lanes.iter().filter(|l| l.rt.metrics().num_alive_tasks() > l.tasks.len()).count();
    }

    fn fail(&mut self, clause: &str, what: String) {
        self.fails.push((clause.to_string(), what));
    }

    fn own_farthest(&self, listed: &BTreeMap<u64, String>) -> Option<u64> {
        listed.keys().filter(|k| self.keys.contains_key(k)).max_by_key(|k| self.keys[k].1.clone()).copied()
    }

    /// the farthest record the store remembers is the farthest listed key (one pass; also run on the large worlds of
    /// the clean-up histories, where the full comparison of `check_views` is skipped — seed C10-r6m1: a clean-up that
    /// leaves `farthest_record` naming a record it has just removed)
    fn check_far(&mut self, listed: &BTreeMap<u64, String>) {
        let far = rs::farthest_record(self.st()).map(|(k, d)| (self.key_id(&k), format!("{d:?}")));
        let want_far = self.own_farthest(listed).map(|k| (k.to_string(), format!("Distance({})", self.keys[&k].1)));
        if far != want_far {
            self.fail("views-agree", format!("farthest_record is {far:?}, the farthest listed key is {want_far:?}"));
        }
    }

    /// views of the held set agree (model independent, checked after every mutating op)
    fn check_views(&mut self) {
        if self.keys.len() > 64 {
            return;
        }
        let listed = self.listed();
        let store = self.st();
        let mut want: Vec<(BigUint, u64)> = listed.keys().filter(|k| self.keys.contains_key(k)).map(|k| (self.keys[k].1.clone(), *k)).collect();
        want.sort();
        let got: Vec<(BigUint, String)> = rs::records_by_distance(store).into_iter().map(|(d, k)| (u256_to_big(d), self.key_id(&k))).collect();
        let want_s: Vec<(BigUint, String)> = want.iter().map(|(d, k)| (d.clone(), k.to_string())).collect();
        if got != want_s {
            let g: Vec<&String> = got.iter().map(|x| &x.1).collect();
            let w: Vec<&String> = want_s.iter().map(|x| &x.1).collect();
            self.fail("views-agree", format!("records_by_distance holds keys {g:?}, the listed keys by true distance are {w:?}"));
        }
        self.check_far(&listed);
        // with every put acknowledged before the next: held + in flight <= capacity + file deletions lost in stops
        let inflight = self.pending_tasks().iter().filter(|(_, t)| matches!(t, TKind::Write { .. })).count() + self.notes.len() + self.awaiting.len();
        if self.disciplined && listed.len() + inflight > self.max.max(1) + self.lost_deletes {
            self.fail("capacity-bound", format!("{} records held and {inflight} in flight with max_records = {} although every put was acknowledged before the next and only {} file deletions were lost in stops", listed.len(), self.max, self.lost_deletes));
        }
    }

    /// C01: with nothing in flight, every untainted key reads back its last accepted put / is absent after removal
    fn check_settled(&mut self) {
        if self.crashed || self.lanes.iter().any(|l| !l.frozen) || !self.notes.is_empty() || !self.awaiting.is_empty() || self.keys.len() > 64 {
            return;
        }
        let listed = self.listed();
        let files: HashSet<String> = self.ls().into_iter().collect();
        let ks: Vec<u64> = self.keys.keys().copied().collect();
        for k in ks {
            if self.taint.contains(&k) {
                continue;
            }
            let got = self.get_str(k);
            match self.last_event.get(&k).cloned() {
                Some(Ev::Put(v, rt)) => {
                    if got != format!("some {v}") {
                        self.fail("settled-readback", format!("key {k}: last accepted put wrote value {v}, settled get returns {got}"));
                    }
                    if listed.get(&k) != Some(&rt) {
                        self.fail("settled-readback", format!("key {k}: last accepted put has type {rt}, listed as {:?}", listed.get(&k)));
                    }
                    if !files.contains(&k.to_string()) {
                        self.fail("settled-readback", format!("key {k}: accepted and settled but no record file"));
                    }
                }
                Some(Ev::Removed) | None => {
                    if got != "none" || listed.contains_key(&k) || files.contains(&k.to_string()) {
                        self.fail("settled-removed", format!("key {k}: removed / never stored, but get = {got}, listed = {}, file = {}", listed.contains_key(&k), files.contains(&k.to_string())));
                    }
                }
            }
        }
    }

    fn exec(&mut self, line: &str) -> String {
        let ws: Vec<&str> = line.split_whitespace().collect();
        if self.defer && !matches!(ws.first().copied(), Some("run" | "runany" | "runfail" | "put" | "cput" | "key" | "len" | "kadput")) {
            self.pump();
        }
        let knows = |w: &World, k: &str| -> Option<u64> { k.parse::<u64>().ok().filter(|k| w.keys.contains_key(k)) };
        if !self.up && !matches!(ws.first().copied(), Some("start" | "vfile" | "ls" | "key" | "len")) {
            return "down".into();
        }
        match ws.as_slice() {
            ["start", id] => self.start(id, None),
            ["start", id, "interrupt"] => self.start(id, Some(0)),
            ["start", id, "interrupt", b] => match b.parse::<u64>() {
                Ok(b) => self.start(id, Some(b)),
                Err(_) => "bad-op".into(),
            },
            ["vfile"] => self.vfile_str(),
            ["key", k, d] | ["key", k, d, _, _] => {
                let Ok(k) = k.parse::<u64>() else { return "bad-op".into() };
                if ws.len() == 5 && (ws[3] != hex::encode(key_bytes(k)) || ws[4] != hex::encode(self.peer.to_bytes())) {
                    return "bad-op".into();
                }
                let key = RecordKey::new(&key_bytes(k));
                let dist = self.dist_of(&key);
                if *d != dist.to_string() {
                    return format!("bad-dist {dist}");
                }
                self.key_ids.insert(key.as_ref().to_vec(), k);
                self.keys.insert(k, (key, dist));
                "ok".into()
            }
            ["put", k, v, _] | ["cput", k, v] => {
                // `put`: put_verified on the bare store; `cput`: `LocalSwarmCmd::PutLocalRecord` through the real handler,
                // which derives the record type from the record header
                let via_cmd = ws[0] == "cput";
                if via_cmd != self.use_cmd {
                    return "bad-op".into();
                }
                let (Some(k), Ok(v)) = (knows(self, k), v.parse::<u64>()) else { return "bad-op".into() };
                let rt_owned: String = if via_cmd { handler_rt(v).unwrap_or_else(|| "c".into()) } else { ws[3].to_string() };
                let rt: &str = &rt_owned;
                let Some(rtype) = self.parse_rt(rt) else { return "bad-op".into() };
                let bytes = self.learn_value(v);
                let key = self.keys[&k].0.clone();
                let before = self.listed();
                let was_inflight_any = self.any_inflight();
                // not listed and nothing in flight for k: the put cannot be answered from the cache
                let fresh = !self.inflight(k);
                self.puts.entry(k).or_default().push(v);
                let rec = Record { key: key.clone(), value: bytes, publisher: None, expires: None };
                let rt_lane = new_lane_rt();
                let res = if via_cmd {
                    let _ = rtype;
                    match self.handle(&rt_lane, LocalSwarmCmd::PutLocalRecord { record: rec }) {
                        Ok(()) => Ok(()),
                        Err(NetworkError::KademliaStoreError(e)) => Err(e),
                        Err(NetworkError::InCorrectRecordHeader) => return "bad-header".into(),
                        Err(e) => return format!("err:{e:?}"),
                    }
                } else {
                    let _g = rt_lane.enter();
                    rs::put_verified(self.st_mut(), rec, rtype)
                };
                let after = self.listed();
                let evicted: Vec<u64> = before.keys().filter(|x| !after.contains_key(x)).copied().collect();
                let spawned = rt_lane.metrics().num_alive_tasks();
                let mut kinds: Vec<TKind> = evicted.iter().map(|f| TKind::Delete { k: *f }).collect();
                if res.is_ok() && spawned > evicted.len() {
                    kinds.push(TKind::Write { k, v });
                }
                // bookkeeping for the oracles, before the lane is registered
                for f in &evicted {
                    if self.inflight(*f) {
                        self.taint.insert(*f);
                    }
                    self.last_event.insert(*f, Ev::Removed);
                    self.clean = false;
                }
                let out = match &res {
                    Ok(()) if spawned == 0 => "dedup".to_string(),
                    Ok(()) => "ok".to_string(),
                    Err(libp2p::kad::store::Error::MaxRecords) => "max".to_string(),
                    Err(e) => format!("err:{e:?}"),
                };
                if out == "ok" {
                    if was_inflight_any {
                        self.disciplined = false;
                    }
                    self.last_event.insert(k, Ev::Put(v, rt.to_string()));
                } else {
                    if out == "dedup" && !matches!(self.last_event.get(&k), Some(Ev::Put(x, _)) if *x == v) {
                        // `Ok` without scheduling a write is only right for the record accepted last for this key
                        let le = self.last_event.get(&k).cloned();
                        self.fail("ok-means-stored", format!("put {k} {v} returned Ok without scheduling a write, but the last store-changing event on key {k} is {le:?}"));
                        self.taint.insert(k);
                    }
                    if out == "max" {
                        self.clean = false;
                        // a refused record leaves no trace: not readable unless the key was held before
                        let got = self.get_str(k);
                        if !before.contains_key(&k) && got != "none" {
                            self.fail("refused-leaves-no-trace", format!("put {k} {v} was refused (MaxRecords) and key {k} is not held, but get returns {got}"));
                        }
                    }
                }
                // C10: the accept/refuse decision for a key that is neither held nor in flight
                if fresh && before.len() >= self.max && !before.is_empty() && !before.contains_key(&k) {
                    let far = self.own_farthest(&before).expect("nonempty");
                    let closer = self.keys[&k].1 <= self.keys[&far].1;
                    if closer {
                        if out != "ok" || evicted != vec![far] {
                            self.fail("at-capacity", format!("put of new key {k} at capacity, closer than the farthest held key {far}: result {out}, evicted {evicted:?}"));
                        }
                    } else if out != "max" || !evicted.is_empty() || before != after {
                        self.fail("at-capacity", format!("put of new key {k} at capacity, farther than the farthest held key {far}: result {out}, evicted {evicted:?}"));
                    }
                } else if fresh && !before.contains_key(&k) && before.len() < self.max && (out != "ok" || !evicted.is_empty()) {
                    self.fail("below-capacity", format!("put of unheld key {k} with {} < {} records held: result {out}, evicted {evicted:?}", before.len(), self.max));
                }
                if !self.push_lane(rt_lane, kinds) {
                    return format!("{out} lane-mismatch");
                }
                out
            }
            ["remove", k] => {
                let Some(k) = knows(self, k) else { return "bad-op".into() };
                if self.use_cmd && self.removes_in_a_row >= 5 {
                    return "bad-op".into();
                }
                let key = self.keys[&k].0.clone();
                if self.inflight(k) {
                    self.taint.insert(k);
                    self.clean = false;
                }
                self.last_event.insert(k, Ev::Removed);
                let rt_lane = new_lane_rt();
                if self.use_cmd {
                    // the only handler that removes one record: `RemoveFailedLocalRecord` (it also counts disk errors
                    // and asks the node to terminate after five in a row; the harness stays below that)
                    self.removes_in_a_row += 1;
                    if let Err(e) = self.handle(&rt_lane, LocalSwarmCmd::RemoveFailedLocalRecord { key: key.clone() }) {
                        return format!("err:{e:?}");
                    }
                } else {
                    let _g = rt_lane.enter();
                    rs::remove(self.st_mut(), &key);
                }
                if !self.push_lane(rt_lane, vec![TKind::Delete { k }]) {
                    return "ok lane-mismatch".into();
                }
                "ok".into()
            }
            ["run", id] => {
                let Ok(id) = id.parse::<u64>() else { return "bad-op".into() };
                self.run_task(id, None, false)
            }
            // replay / fault ops
            ["runfail", id, "open"] => {
                let Ok(id) = id.parse::<u64>() else { return "bad-op".into() };
                self.run_task(id, Some(Fault::Open), false)
            }
            ["runfail", id, "full", b] => {
                let (Ok(id), Ok(b)) = (id.parse::<u64>(), b.parse::<u64>()) else { return "bad-op".into() };
                self.run_task(id, Some(Fault::Full(b)), false)
            }
            // replay only: the task runs although an older task of the same key is still pending (the order the
            // per-key-FIFO legality excludes; tokio gives no such guarantee)
            ["runany", id] => {
                let Ok(id) = id.parse::<u64>() else { return "bad-op".into() };
                self.run_task(id, None, true)
            }
            // replay only: the puts are made back to back from ONE task running on a tokio multi-thread worker (as
            // `SwarmDriver::run` handles commands), and the runtime then runs what they spawned in its own order
            ["lifo", rest @ ..] if !rest.is_empty() && rest.len() % 3 == 0 => self.lifo(rest),
            // replay-only probes of start-up scan branches OUTSIDE the model (assumption "no foreign files in the store
            // directory"): `sub` moves k's record file into a subdirectory (the scan walks recursively and indexes it, `get`
            // reads only the top level), `upper` adds a copy of k's file under the upper-case hex name (hex::decode takes
            // both spellings: two files for one key). The model answers `ok` and does not follow.
            ["foreign", kind @ ("sub" | "upper"), k] => {
                let Some(k) = knows(self, k) else { return "bad-op".into() };
                let name = rs::generate_filename(&self.keys[&k].0);
                let path = self.storage.join(&name);
                let Ok(bytes) = std::fs::read(&path) else { return "no-file".into() };
                self.taint.insert(k);
                self.disk_taint.insert(k);
                self.clean = false;
                if *kind == "sub" {
                    let dir = self.storage.join("sub");
                    let _ = std::fs::create_dir_all(&dir);
                    let _ = std::fs::write(dir.join(&name), &bytes);
                    let _ = std::fs::remove_file(&path);
                } else {
                    let _ = std::fs::write(self.storage.join(name.to_uppercase()), &bytes);
                }
                "ok".into()
            }
            ["flen", k] => {
                let Some(k) = knows(self, k) else { return "bad-op".into() };
                let path = self.storage.join(rs::generate_filename(&self.keys[&k].0));
                match std::fs::metadata(&path) {
                    Ok(m) if m.is_file() => m.len().to_string(),
                    Ok(_) => "not-a-file".into(),
                    Err(_) => "absent".into(),
                }
            }
            ["deliver", id] => {
                let Ok(id) = id.parse::<u64>() else { return "bad-op".into() };
                let Some(pos) = self.notes.iter().position(|n| n.0 == id) else { return "no-note".into() };
                let k = self.notes[pos].1;
                if self.notes[..pos].iter().any(|n| n.1 == k) {
                    return "illegal-choice".into();
                }
                let (_, _, cmd) = self.notes.remove(pos);
                let failed = matches!(cmd, LocalSwarmCmd::RemoveFailedLocalRecord { .. });
                if failed {
                    // the handler removes the key: a removal like any other for the oracles
                    if self.inflight(k) {
                        self.taint.insert(k);
                    }
                    self.last_event.insert(k, Ev::Removed);
                    self.clean = false;
                }
                let rt_lane = new_lane_rt();
                let mut kinds = vec![];
                if self.use_cmd {
                    // the REAL handler of the notification
                    match &cmd {
                        LocalSwarmCmd::AddLocalRecordAsStored { .. } => self.removes_in_a_row = 0,
                        LocalSwarmCmd::RemoveFailedLocalRecord { .. } => {
                            self.removes_in_a_row += 1;
                            kinds.push(TKind::Delete { k });
                        }
                        _ => {}
                    }
                    if let Err(e) = self.handle(&rt_lane, cmd) {
                        return format!("err:{e:?}");
                    }
                } else {
                    let _g = rt_lane.enter();
                    let store = self.st_mut();
                    // what `SwarmDriver::handle_local_cmd` does with these two commands
                    match cmd {
                        LocalSwarmCmd::AddLocalRecordAsStored { key, record_type } => rs::mark_as_stored(store, key, record_type),
                        LocalSwarmCmd::RemoveFailedLocalRecord { key } => {
                            rs::remove(store, &key);
                            kinds.push(TKind::Delete { k });
                        }
                        _ => {}
                    }
                }
                if failed && self.keys.contains_key(&k) {
                    // C01: once the failure of a write is handled the key is neither listed nor readable (index and cache
                    // entry gone; the file goes with the spawned delete)
                    let got = self.get_str(k);
                    let listed = rs::contains(self.st(), &self.keys[&k].0);
                    if listed || got != "none" {
                        self.fail("failed-write-removes-key", format!("RemoveFailedLocalRecord for key {k} was handled, but listed = {listed}, get = {got}"));
                    }
                }
                if !self.push_lane(rt_lane, kinds) {
                    return "ok lane-mismatch".into();
                }
                "ok".into()
            }
            ["setrange", r] => {
                let Some(b) = BigUint::parse_bytes(r.as_bytes(), 10) else { return "bad-op".into() };
                if b.bits() > 256 {
                    return "bad-op".into();
                }
                rs::set_responsible_distance_range(self.st_mut(), big_to_u256(&b));
                self.range = Some(b);
                "ok".into()
            }
            ["cleanup"] => {
                let before = self.listed();
                let rt_lane = new_lane_rt();
                if self.use_cmd {
                    if let Err(e) = self.handle(&rt_lane, LocalSwarmCmd::TriggerIrrelevantRecordCleanup) {
                        return format!("err:{e:?}");
                    }
                } else {
                    let _g = rt_lane.enter();
                    rs::cleanup_irrelevant_records(self.st_mut());
                }
                let after = self.listed();
                let mut removed: Vec<u64> = before.keys().filter(|x| !after.contains_key(x)).copied().collect();
                removed.sort_by_key(|k| self.keys[k].1.clone());
                // C10: exactly the records at or beyond the responsible distance go, and only from the threshold on
                let applies = before.len() >= rs::MAX_RECORDS_COUNT_VALUE / 10 && self.range.is_some();
                let mut want: Vec<u64> = if applies {
                    let r = self.range.clone().expect("range");
                    before.keys().filter(|k| self.keys[k].1 >= r).copied().collect()
                } else {
                    vec![]
                };
                want.sort_by_key(|k| self.keys[k].1.clone());
                if removed != want || after.keys().any(|k| !before.contains_key(k)) {
                    self.fail("cleanup-exact", format!("clean-up with {} records, range {:?}: removed {} keys {:?}, should remove {} keys {:?}", before.len(), self.range, removed.len(), &removed[..removed.len().min(8)], want.len(), &want[..want.len().min(8)]));
                }
                for f in &removed {
                    if self.inflight(*f) {
                        self.taint.insert(*f);
                    }
                    self.last_event.insert(*f, Ev::Removed);
                    self.clean = false;
                }
                let kinds = removed.iter().map(|f| TKind::Delete { k: *f }).collect();
                if !self.push_lane(rt_lane, kinds) {
                    return "ok lane-mismatch".into();
                }
                "ok".into()
            }
            ["payment"] => {
                let rt_lane = new_lane_rt();
                if self.use_cmd {
                    if let Err(e) = self.handle(&rt_lane, LocalSwarmCmd::PaymentReceived) {
                        return format!("err:{e:?}");
                    }
                } else {
                    let _g = rt_lane.enter();
                    rs::payment_received(self.st_mut());
                }
                self.payments += 1;
                self.received += 1;
                let n = self.payments;
                if rt_lane.metrics().num_alive_tasks() == 0 {
                    // the metrics file is written in place: nothing is pending; the call takes one id
                    self.hist_file = Some(n);
                    self.next_id += 1;
                } else if !self.push_lane(rt_lane, vec![TKind::Flush { n }]) {
                    return "ok lane-mismatch".into();
                }
                "ok".into()
            }
            ["kadput", k, v] => {
                // the unverified kad path: only its size test is observed (nothing is stored by it)
                let (Some(k), Ok(v)) = (knows(self, k), v.parse::<u64>()) else { return "bad-op".into() };
                let bytes = self.learn_value(v);
                let rec = Record { key: self.keys[&k].0.clone(), value: bytes, publisher: None, expires: None };
                let rt_lane = new_lane_rt();
                let res = {
                    let _g = rt_lane.enter();
                    libp2p::kad::store::RecordStore::put(self.st_mut(), rec)
                };
                drop(rt_lane);
                match res {
                    Ok(()) => "ok".into(),
                    Err(libp2p::kad::store::Error::ValueTooLarge) => "too-large".into(),
                    Err(e) => format!("err:{e:?}"),
                }
            }
            ["len", v] => {
                let Ok(v) = v.parse::<u64>() else { return "bad-op".into() };
                value_bytes(v).len().to_string()
            }
            ["crash", tears @ ..] => self.crash(tears),
            ["get", k] => {
                let Some(k) = knows(self, k) else { return "bad-op".into() };
                let mut out = self.get_str(k);
                if self.use_cmd {
                    // through `LocalSwarmCmd::GetLocalRecord`; must agree with the store's own answer
                    let (tx, mut rx) = tokio::sync::oneshot::channel();
                    let rt_lane = new_lane_rt();
                    let key = self.keys[&k].0.clone();
                    let _ = self.handle(&rt_lane, LocalSwarmCmd::GetLocalRecord { key, sender: tx });
                    let via = match rx.try_recv() {
                        Ok(None) => "none".to_string(),
                        Ok(Some(r)) => match self.vals.get(&r.value) {
                            Some(v) => format!("some {v}"),
                            None => "some ?".to_string(),
                        },
                        Err(_) => "no-answer".to_string(),
                    };
                    if via != out {
                        out = format!("{via} !direct={out}");
                    }
                }
                // C01 soundness: only bytes handed over as a validated record for this key
                let ok = match out.strip_prefix("some ").and_then(|v| v.parse::<u64>().ok()) {
                    Some(v) => self.puts.get(&k).map(|p| p.contains(&v)).unwrap_or(false),
                    None => out == "none",
                };
                if !ok {
                    self.fail("get-sound", format!("get {k} returned {out}; values ever put for this key: {:?}", self.puts.get(&k)));
                }
                out
            }
            ["contains", k] => {
                let Some(k) = knows(self, k) else { return "bad-op".into() };
                let direct = rs::contains(self.st(), &self.keys[&k].0).to_string();
                if self.use_cmd {
                    let (tx, mut rx) = tokio::sync::oneshot::channel();
                    let rt_lane = new_lane_rt();
                    let key = self.keys[&k].0.clone();
                    let _ = self.handle(&rt_lane, LocalSwarmCmd::RecordStoreHasKey { key, sender: tx });
                    return match rx.try_recv() {
                        Ok(b) if b.to_string() == direct => direct,
                        Ok(b) => format!("{b} !direct={direct}"),
                        Err(_) => "no-answer".into(),
                    };
                }
                direct
            }
            ["addrs"] => {
                let addresses = if self.use_cmd {
                    let (tx, mut rx) = tokio::sync::oneshot::channel();
                    let rt_lane = new_lane_rt();
                    let _ = self.handle(&rt_lane, LocalSwarmCmd::GetAllLocalRecordAddresses { sender: tx });
                    match rx.try_recv() {
                        Ok(m) => m,
                        Err(_) => return "no-answer".into(),
                    }
                } else {
                    rs::record_addresses(self.st())
                };
                let mut v: Vec<(u64, String)> = vec![];
                let mut odd = vec![];
                for (addr, rt) in addresses {
                    let id = self.keys.iter().find(|(_, (key, _))| NetworkAddress::from_record_key(key) == addr).map(|(k, _)| *k);
                    match id {
                        Some(k) => v.push((k, self.rt_str(&rt))),
                        None => odd.push(format!("?{addr:?}")),
                    }
                }
                v.sort();
                let by_ref: Vec<(u64, String)> = self.listed().into_iter().collect();
                let mut parts: Vec<String> = v.iter().map(|(k, t)| format!("{k}:{t}")).collect();
                parts.extend(odd);
                if by_ref != v {
                    parts.push("!ref-differs".into());
                }
                if parts.is_empty() { "-".into() } else { parts.join(" ") }
            }
            ["ls"] => {
                let v = self.ls();
                if v.is_empty() { "-".into() } else { v.join(" ") }
            }
            ["dist"] => {
                let store = self.st();
                let v: Vec<String> = rs::records_by_distance(store)
                    .into_iter()
                    .map(|(d, key)| {
                        let own = self.dist_of(&key);
                        let mark = if u256_to_big(d) == own { "" } else { "!" };
                        format!("{}{mark}", self.key_id(&key))
                    })
                    .collect();
                if v.is_empty() { "-".into() } else { v.join(" ") }
            }
            ["far"] => {
                let store = self.st();
                match rs::farthest_record(store) {
                    None => "none".into(),
                    Some((key, d)) => {
                        let own = self.dist_of(&key);
                        let mark = if format!("{d:?}") == format!("Distance({own})") && rs::get_farthest(store) == Some(key.clone()) { "" } else { "!" };
                        format!("{}{mark}", self.key_id(&key))
                    }
                }
            }
            ["cache"] => {
                let store = self.st();
                let mut es = rs::cache_entries(store);
                es.sort_by_key(|e| e.2);
                let v: Vec<String> = es
                    .iter()
                    .map(|(key, val, _)| format!("{}:{}", self.key_id(key), self.vals.get(val).map(|v| v.to_string()).unwrap_or("?".into())))
                    .collect();
                if v.is_empty() { "-".into() } else { v.join(" ") }
            }
            ["pending"] => {
                let t: Vec<String> = self.pending_tasks().iter().map(|t| t.0.to_string()).collect();
                // grouped by key (stable sort): the order of notifications of different keys is the order in which
                // waiting sender tasks happen to be polled once the channel has room; only the per-key order matters
                let mut ns: Vec<&(u64, u64, LocalSwarmCmd)> = self.notes.iter().collect();
                ns.sort_by_key(|n| n.1);
                let n: Vec<String> = ns.iter().map(|n| n.0.to_string()).collect();
                format!("t={} n={}", t.join(","), n.join(","))
            }
            ["metrics", k] => {
                let Some(k) = knows(self, k) else { return "bad-op".into() };
                let store = self.st();
                let (m, stored) = rs::quoting_metrics(store, &self.keys[&k].0, Some(7));
                let range = m.network_density.map(|b| BigUint::from_bytes_be(&b).to_string()).unwrap_or("none".into());
                let extra = if m.network_size != Some(7) { " !size" } else { "" };
                let out = format!("close={} max={} paid={} stored={} range={}{extra}", m.close_records_stored, m.max_records, m.received_payment_count, stored, range);
                // C10: the signed figures equal the true values
                let listed = self.listed();
                let close = match &self.range {
                    Some(r) => listed.keys().filter(|x| self.keys[x].1 < *r).count(),
                    None => listed.len(),
                };
                let want = format!("close={close} max={} paid={} stored={} range={}", self.max, self.payments, listed.contains_key(&k), self.range.as_ref().map(|r| r.to_string()).unwrap_or("none".into()));
                if out != want {
                    self.fail("metrics-exact", format!("quoting_metrics gives `{out}`, the true figures are `{want}`"));
                }
                out
            }
            _ => "bad-op".into(),
        }
    }

    /// `run` / `runfail` / `runany`: spawned task `id` runs to completion (with a disk fault in force / although an
    /// older task of its key is pending)
    fn run_task(&mut self, id: u64, fault: Option<Fault>, any_order: bool) -> String {
        let Some((li, pos)) = self.find_task(id) else { return "no-task".into() };
        let kind = self.lanes[li].tasks[pos].1.clone();
        if !any_order && !self.legal_run(id, &kind) {
            return "illegal-choice".into();
        }
        if pos != 0 || self.lanes[li].frozen {
            return "unsupported-schedule".into();
        }
        if fault.is_some() && (self.defer || !matches!(kind, TKind::Write { .. })) {
            // faults are placed on write tasks, with a command channel that is drained at once
            return "bad-op".into();
        }
        if any_order {
            self.clean = false;
            if let Some(k) = kind.key() {
                self.taint.insert(k);
                self.disk_taint.insert(k);
            }
        }
        let queued_before = self.cmd_tx.max_capacity() - self.cmd_tx.capacity();
        let cmds = self.step_lane_fault(li, fault);
        let mut out = "ran".to_string();
        if let (TKind::Write { k, v }, false) = (&kind, self.defer) {
            // C01: a finished write reports its outcome — stored (and then the file is complete) or failed
            let path = self.storage.join(rs::generate_filename(&self.keys[k].0));
            let len = std::fs::metadata(&path).ok().filter(|m| m.is_file()).map(|m| m.len());
            let adds = cmds.iter().filter(|c| matches!(c, LocalSwarmCmd::AddLocalRecordAsStored { .. })).count();
            let fails = cmds.iter().filter(|c| matches!(c, LocalSwarmCmd::RemoveFailedLocalRecord { .. })).count();
            if adds + fails != 1 {
                self.fail("write-outcome-reported", format!("write task {id} of key {k} ran and sent {adds} AddLocalRecordAsStored and {fails} RemoveFailedLocalRecord (file length now {len:?}, a complete file has {})", file_len(*v)));
            }
            if adds == 1 && len != Some(file_len(*v) as u64) {
                self.fail("stored-means-written", format!("write task {id} of key {k} reported the record as stored, its file has length {len:?} instead of {}", file_len(*v)));
            }
        }
        if self.defer {
            // the notification is either on the channel now or waits (in its sender task) for room
            let queued = self.cmd_tx.max_capacity() - self.cmd_tx.capacity();
            let blocked_now = self.lanes.iter().filter(|l| l.rt.metrics().num_alive_tasks() > l.tasks.len()).count();
            if let TKind::Write { k, .. } = kind {
                if queued > queued_before || blocked_now > self.blocked_senders {
                    out.push_str(" add");
                    self.awaiting.push_back((id, k));
                }
            }
            self.blocked_senders = blocked_now;
        }
        if let (TKind::Delete { k }, false) = (&kind, any_order) {
            // the file is gone: what a restart finds for this key is again what the harness expects
            self.disk_taint.remove(k);
        }
        for c in cmds {
            match &c {
                LocalSwarmCmd::AddLocalRecordAsStored { key, .. } => {
                    out.push_str(" add");
                    let k = self.key_ids.get(key.as_ref()).copied().unwrap_or(u64::MAX);
                    if !any_order {
                        self.disk_taint.remove(&k);
                    }
                    self.notes.push((id, k, c));
                }
                LocalSwarmCmd::RemoveFailedLocalRecord { key } => {
                    out.push_str(" fail");
                    let k = self.key_ids.get(key.as_ref()).copied().unwrap_or(u64::MAX);
                    // the file of k is now whatever the failed write left (nothing new / empty / a torn prefix; a
                    // previous complete version is destroyed by the truncate): no expectation on it until a later
                    // write or delete of k completes
                    self.disk_taint.insert(k);
                    self.clean = false;
                    self.counts.push((format!("write-fault:{}", match fault { Some(Fault::Open) => "open", Some(Fault::Full(0)) => "full-0", Some(Fault::Full(_)) => "full-b", None => "none" }), 1));
                    self.notes.push((id, k, c));
                }
                other => out.push_str(&format!(" ?{other:?}")),
            }
        }
        out
    }

    /// `lifo k v rt [k v rt …]`: `put_verified` for each triple, back to back, from inside one task of a multi-thread
    /// tokio runtime with a single worker — the way the node's `SwarmDriver::run` task calls it on the shipped
    /// `Runtime::new()`. Every `spawn` made from a worker goes into that worker's LIFO slot and pushes the previous
    /// occupant to the back of the local queue, so once the calling task yields the LAST spawned task runs first, then
    /// the others in spawn order. Nothing is forced here: the order is tokio's. All spawned tasks complete before the
    /// op returns; their notifications are pending (`deliver`).
    fn lifo(&mut self, triples: &[&str]) -> String {
        if self.use_cmd || self.defer || self.any_inflight() || !self.lanes.is_empty() {
            return "bad-op".into();
        }
        let mut puts: Vec<(u64, u64, String, RecordType, Record)> = vec![];
        for t in triples.chunks(3) {
            let (Some(k), Ok(v)) = (t[0].parse::<u64>().ok().filter(|k| self.keys.contains_key(k)), t[1].parse::<u64>()) else { return "bad-op".into() };
            let Some(rtype) = self.parse_rt(t[2]) else { return "bad-op".into() };
            let bytes = self.learn_value(v);
            let rec = Record { key: self.keys[&k].0.clone(), value: bytes, publisher: None, expires: None };
            puts.push((k, v, t[2].to_string(), rtype, rec));
        }
        struct SendPtr(*mut NodeRecordStore);
        // SAFETY: the store is only touched by the one task below while this thread waits for it
        unsafe impl Send for SendPtr {}
        let ptr = SendPtr(self.store_ptr);
        let rt = tokio::runtime::Builder::new_multi_thread().worker_threads(1).build().expect("runtime");
        let calls: Vec<(Record, RecordType)> = puts.iter().map(|p| (p.4.clone(), p.3.clone())).collect();
        let before = self.listed();
        let results: Vec<(bool, usize)> = rt.block_on(async move {
            tokio::spawn(async move {
                let ptr = ptr;
                let store = unsafe { &mut *ptr.0 };
                let h = tokio::runtime::Handle::current();
                let mut out = vec![];
                for (rec, rtype) in calls {
                    let alive = h.metrics().num_alive_tasks();
                    let r = rs::put_verified(store, rec, rtype);
                    out.push((r.is_ok(), h.metrics().num_alive_tasks() - alive));
                }
                out
            })
            .await
            .expect("lifo task")
        });
        // the worker now runs what was spawned, in its own order
        let mut guard = 0;
        while rt.metrics().num_alive_tasks() > 0 && guard < 2000 {
            std::thread::sleep(std::time::Duration::from_millis(1));
            guard += 1;
        }
        drop(rt);
        let after = self.listed();
        let mut outs = vec![];
        let mut writes: Vec<(u64, u64, String)> = vec![]; // task id, key, rt
        for ((k, v, rt_s, _, _), (ok, spawned)) in puts.iter().zip(results.iter()) {
            self.puts.entry(*k).or_default().push(*v);
            self.taint.insert(*k);
            self.disk_taint.insert(*k);
            let out = match (ok, spawned) {
                (true, 0) => "dedup",
                (true, _) => "ok",
                (false, _) => "max",
            };
            if *ok && *spawned > 0 {
                // the evictions' deletes come first, the write last
                self.next_id += *spawned as u64 - 1;
                writes.push((self.next_id, *k, rt_s.clone()));
                self.next_id += 1;
                self.last_event.insert(*k, Ev::Put(*v, rt_s.clone()));
            }
            outs.push(out);
        }
        for f in before.keys().filter(|x| !after.contains_key(x)) {
            self.taint.insert(*f);
            self.disk_taint.insert(*f);
            self.last_event.insert(*f, Ev::Removed);
        }
        self.clean = false;
        self.disciplined = false;
        // notifications in arrival order; each belongs to the write of that key and type (tokio's order when ambiguous:
        // last spawned first, then spawn order)
        let mut order: Vec<(u64, u64, String)> = vec![];
        if let Some(last) = writes.last().cloned() {
            order.push(last);
            order.extend(writes[..writes.len() - 1].iter().cloned());
        }
        while let Ok(c) = self.cmd_rx.try_recv() {
            if let LocalSwarmCmd::AddLocalRecordAsStored { key, record_type } = &c {
                let k = self.key_ids.get(key.as_ref()).copied().unwrap_or(u64::MAX);
                let rts = self.rt_str(record_type);
                let pos = order.iter().position(|w| w.1 == k && w.2 == rts).or_else(|| order.iter().position(|w| w.1 == k));
                let id = match pos {
                    Some(p) => order.remove(p).0,
                    None => u64::MAX - self.notes.len() as u64,
                };
                self.notes.push((id, k, c));
            } else {
                return format!("{} ?{c:?}", outs.join(" "));
            }
        }
        outs.join(" ")
    }

    fn crash(&mut self, tears: &[&str]) -> String {
        let mut parsed: Vec<(u64, usize)> = vec![];
        for t in tears {
            let Some((a, b)) = t.split_once(':') else { return "bad-op".into() };
            let (Ok(a), Ok(b)) = (a.parse::<u64>(), b.parse::<usize>()) else { return "bad-op".into() };
            parsed.push((a, b));
        }
        let mut torn: Vec<(u64, u64, u64, usize)> = vec![]; // task id, key, value, bytes written
        for (id, n) in &parsed {
            let Some((li, pos)) = self.find_task(*id) else { return "illegal-choice".into() };
            let kind = self.lanes[li].tasks[pos].1.clone();
            let TKind::Write { k, v } = kind.clone() else { return "illegal-choice".into() };
            if !self.legal_run(*id, &kind) {
                return "illegal-choice".into();
            }
            if pos != 0 || torn.iter().any(|t| t.1 == k) {
                return "unsupported-schedule".into();
            }
            if *n >= file_len(v) {
                return "bad-tear".into();
            }
            torn.push((*id, k, v, *n));
        }
        // C02 expectations, from what the harness itself knows about completed work
        let ks: Vec<u64> = self.keys.keys().copied().collect();
        let mut expect: Vec<(u64, Option<u64>)> = vec![]; // key -> Some(v) must be served, None must be absent
        for k in &ks {
            if torn.iter().any(|t| t.1 == *k) {
                if rs::ENCRYPT_RECORDS {
                    expect.push((*k, None));
                }
                continue;
            }
            if self.pending_for(*k) || self.taint_disk(*k) {
                continue;
            }
            match self.last_event.get(k) {
                Some(Ev::Put(v, _)) if v % 3 != 2 => expect.push((*k, Some(*v))),
                Some(Ev::Removed) => expect.push((*k, None)),
                _ => {}
            }
        }
        self.lost_deletes += self.pending_tasks().iter().filter(|(_, t)| matches!(t, TKind::Delete { .. })).count();
        // the in-flight writes happen, then lose their tail
        let mut fulls: Vec<(u64, Vec<u8>)> = vec![];
        for (id, k, _v, n) in &torn {
            let (li, _) = self.find_task(*id).expect("task");
            let _ = self.step_lane(li);
            let path = self.storage.join(rs::generate_filename(&self.keys[k].0));
            let full = std::fs::read(&path).unwrap_or_default();
            let f = std::fs::OpenOptions::new().write(true).open(&path).expect("open torn file");
            f.set_len(*n as u64).expect("truncate");
            fulls.push((*k, full));
        }
        // the node stops: nothing pending survives
        self.lanes.clear();
        self.notes.clear();
        self.awaiting.clear();
        self.blocked_senders = 0;
        self.close();
        while self.cmd_rx.try_recv().is_ok() {}
        self.crashed = true;
        self.clean = false;
        self.range = None;
        let survived = self.hist_file;
        self.open();
        if self.payments != survived.unwrap_or(0) {
            let p = self.payments;
            self.fail("payments-survive-restart", format!("persisted payment count was {survived:?}, reopened store reports {p}"));
        }
        self.hist_file = survived;
        // C10: payments received survive restarts — whatever was pending, in whatever order tasks completed
        if self.payments != self.received {
            let (p, r) = (self.payments, self.received);
            self.fail("payments-survive-restart", format!("{r} payments were received since the node's first start, the restarted store reports {p}"));
        }
        // C02 oracle on the reopened store
        let listed = self.listed();
        for k in &ks {
            let got = self.get_str(*k);
            let sound = match got.strip_prefix("some ").and_then(|v| v.parse::<u64>().ok()) {
                Some(v) => self.puts.get(k).map(|p| p.contains(&v)).unwrap_or(false),
                None => got == "none",
            };
            if !sound {
                self.fail("restart-sound", format!("after restart get {k} = {got}; values ever put for this key: {:?}", self.puts.get(k)));
            }
        }
        for (k, e) in &expect {
            let got = self.get_str(*k);
            match e {
                Some(v) => {
                    if got != format!("some {v}") || !listed.contains_key(k) {
                        self.fail("restart-keeps-completed", format!("key {k}: write of value {v} had completed and was not overwritten or removed; after restart get = {got}, listed = {}", listed.contains_key(k)));
                    }
                }
                None => {
                    if got != "none" || listed.contains_key(k) {
                        self.fail("restart-absent", format!("key {k}: removed (or torn) before the stop; after restart get = {got}, listed = {}", listed.contains_key(k)));
                    }
                }
            }
        }
        // what the reopened store holds is the baseline for the rest of the history
        self.last_event.clear();
        for k in &ks {
            let ev = match (listed.get(k), self.get_str(*k).strip_prefix("some ").and_then(|v| v.parse::<u64>().ok())) {
                (Some(rt), Some(v)) => Ev::Put(v, rt.clone()),
                _ => Ev::Removed,
            };
            self.last_event.insert(*k, ev);
        }
        // every other byte prefix of each torn file, on a copy of the directory
        let baseline: Vec<(u64, String)> = ks.iter().map(|k| (*k, self.get_str(*k))).collect();
        for (k, full) in &fulls {
            self.counts.push(("torn-writes".into(), 1));
            self.counts.push(("torn-prefix-reopens".into(), prefix_lengths(full.len()).len() as u64));
            for n in prefix_lengths(full.len()) {
                if let Some(what) = self.reopen_with_prefix(*k, &full[..n], &baseline) {
                    self.fail("restart-torn-prefix", format!("key {k}: file torn to {n} of {} bytes: {what}", full.len()));
                    break;
                }
            }
        }
        "ok".into()
    }

    fn vfile_str(&self) -> String {
        match std::fs::read(self.root.path().join("network_key_version")) {
            Err(_) => "absent".into(),
            Ok(b) if b.is_empty() => "empty".into(),
            Ok(b) => String::from_utf8_lossy(&b).chars().map(|c| if c.is_ascii_graphic() { c } else { '?' }).collect(),
        }
    }

    /// version file and record files, byte for byte
    fn dir_snapshot(&self) -> (Option<Vec<u8>>, BTreeMap<String, Vec<u8>>) {
        let v = std::fs::read(self.root.path().join("network_key_version")).ok();
        let mut files = BTreeMap::new();
        if let Ok(rd) = std::fs::read_dir(&self.storage) {
            for e in rd.flatten() {
                files.insert(e.file_name().to_string_lossy().to_string(), std::fs::read(e.path()).unwrap_or_default());
            }
        }
        (v, files)
    }

    /// `start <netid> [interrupt b]`: the node stops (if it is running); then the start-up step that
    /// `NetworkBuilder::build_node` runs before it opens the store — the REAL `check_and_wipe_storage_dir_if_necessary` —
    /// runs for this network id: in this process, followed by `create_dir_all(storage)` and `with_config` as in
    /// `build_node`; or, interrupted, in a child process (this binary re-executed with `--start-child`) whose
    /// RLIMIT_FSIZE is b bytes, so the kernel kills it (SIGXFSZ) at the first write that would take a regular file beyond
    /// b bytes — the version-file write: 0 = right after the truncate, 0 < b < len = a torn prefix.
    fn start(&mut self, id: &str, interrupt: Option<u64>) -> String {
        if self.use_cmd {
            return "bad-op".into();
        }
        let Ok(idn) = id.parse::<u64>() else { return "bad-op".into() };
        let idtext = idn.to_string();
        if self.up {
            // the node stops: nothing pending survives. What must be there again after a restart with the same
            // identity, from what the harness itself knows about completed work (as for `crash` with no torn write)
            let ks: Vec<u64> = self.keys.keys().copied().collect();
            let mut expect: Vec<(u64, Option<u64>)> = vec![];
            for k in &ks {
                if self.pending_for(*k) || self.taint_disk(*k) {
                    continue;
                }
                match self.last_event.get(k) {
                    Some(Ev::Put(v, _)) if v % 3 != 2 => expect.push((*k, Some(*v))),
                    Some(Ev::Removed) => expect.push((*k, None)),
                    _ => {}
                }
            }
            self.start_expect = expect;
            self.lost_deletes += self.pending_tasks().iter().filter(|(_, t)| matches!(t, TKind::Delete { .. })).count();
            self.lanes.clear();
            self.notes.clear();
            self.awaiting.clear();
            self.blocked_senders = 0;
            self.close();
            while self.cmd_rx.try_recv().is_ok() {}
            self.crashed = true;
            self.clean = false;
            self.range = None;
            self.up = false;
            self.same_id_streak = true;
        }
        let own_id = self.net.as_deref() == Some(idtext.as_str());
        if !own_id {
            self.same_id_streak = false;
        }
        if let Some(limit) = interrupt {
            let before = self.dir_snapshot();
            // /proc/self/exe stays valid when the binary file is replaced by a rebuild while this process runs
            // (current_exe() then names a path that no longer exists: a thorough-tier run reported
            // `err:spawn:No such file or directory` on the unchanged tree while another build was going on)
            let exe = if std::path::Path::new("/proc/self/exe").exists() {
                std::path::PathBuf::from("/proc/self/exe")
            } else {
                match std::env::current_exe() {
                    Ok(e) => e,
                    Err(e) => return format!("err:current_exe:{e}"),
                }
            };
            let mut cmd = std::process::Command::new(exe);
            cmd.arg("--start-child").arg(self.root.path()).arg(&idtext);
            cmd.stdin(std::process::Stdio::null()).stdout(std::process::Stdio::null()).stderr(std::process::Stdio::null());
            // SAFETY: only async-signal-safe calls between fork and exec
            unsafe {
                use std::os::unix::process::CommandExt;
                cmd.pre_exec(move || {
                    let no_core = libc::rlimit { rlim_cur: 0, rlim_max: 0 };
                    libc::setrlimit(libc::RLIMIT_CORE, &no_core);
                    let lim = libc::rlimit { rlim_cur: limit as libc::rlim_t, rlim_max: limit as libc::rlim_t };
                    if libc::setrlimit(libc::RLIMIT_FSIZE, &lim) != 0 {
                        return Err(std::io::Error::last_os_error());
                    }
                    Ok(())
                });
            }
            let status = match cmd.status() {
                Ok(s) => s,
                Err(e) => return format!("err:spawn:{e}"),
            };
            use std::os::unix::process::ExitStatusExt;
            let out = match (status.signal(), status.code()) {
                (Some(sig), _) if sig == libc::SIGXFSZ => "killed".to_string(),
                (Some(sig), _) => format!("signal-{sig}"),
                (None, Some(0)) => "exited".to_string(),
                (None, c) => format!("child-failed-{c:?}"),
            };
            // C02: a start with the node's own network id, interrupted anywhere, leaves the version file and every
            // record file as they were
            if own_id && self.same_id_streak {
                let after = self.dir_snapshot();
                if after != before {
                    let show = |v: &Option<Vec<u8>>| v.as_ref().map(|b| String::from_utf8_lossy(b).to_string());
                    self.fail("interrupted-start-untouched", format!("a start for the node's own network id {idtext} was interrupted ({out}): version file {:?} -> {:?}, record files {} -> {}", show(&before.0), show(&after.0), before.1.len(), after.1.len()));
                }
            }
            return format!("{out} v={}", self.vfile_str());
        }
        // the completed start: what `build_node` does before and when it opens the store
        if let Err(e) = dhook::check_and_wipe_storage_dir_if_necessary(self.root.path().to_path_buf(), self.storage.clone(), idtext.clone()) {
            return format!("err:{e:?}");
        }
        if let Err(e) = std::fs::create_dir_all(&self.storage) {
            return format!("err:mkdir:{e}");
        }
        self.open();
        self.up = true;
        if self.payments != self.received {
            let (p, r) = (self.payments, self.received);
            self.fail("payments-survive-restart", format!("{r} payments were received since the node's first start, the restarted store reports {p}"));
        }
        let ks: Vec<u64> = self.keys.keys().copied().collect();
        let listed = self.listed();
        for k in &ks {
            let got = self.get_str(*k);
            let sound = match got.strip_prefix("some ").and_then(|v| v.parse::<u64>().ok()) {
                Some(v) => self.puts.get(k).map(|p| p.contains(&v)).unwrap_or(false),
                None => got == "none",
            };
            if !sound {
                self.fail("restart-sound", format!("after the start get {k} = {got}; values ever put for this key: {:?}", self.puts.get(k)));
            }
        }
        // C02: restarted with the same identity — the same network id in every start since the node stopped
        if own_id && self.same_id_streak {
            let expect = std::mem::take(&mut self.start_expect);
            for (k, e) in &expect {
                let got = self.get_str(*k);
                match e {
                    Some(v) => {
                        if got != format!("some {v}") || !listed.contains_key(k) {
                            self.fail("restart-keeps-completed", format!("key {k}: write of value {v} had completed and was not overwritten or removed; after the node stopped and was started again with its own network id {idtext} (interrupted starts in between) get = {got}, listed = {}", listed.contains_key(k)));
                        }
                    }
                    None => {
                        if got != "none" || listed.contains_key(k) {
                            self.fail("restart-absent", format!("key {k}: removed before the stop; after the restart get = {got}, listed = {}", listed.contains_key(k)));
                        }
                    }
                }
            }
        }
        self.start_expect.clear();
        self.net = Some(idtext);
        self.same_id_streak = false;
        // what the reopened store holds is the baseline for the rest of the history
        self.last_event.clear();
        for k in &ks {
            let ev = match (listed.get(k), self.get_str(*k).strip_prefix("some ").and_then(|v| v.parse::<u64>().ok())) {
                (Some(rt), Some(v)) => Ev::Put(v, rt.clone()),
                _ => Ev::Removed,
            };
            self.last_event.insert(*k, ev);
        }
        format!("started v={}", self.vfile_str())
    }

    /// disk-level taint: the file of k is what a failed (or out-of-order) write left, not what the last event says
    fn taint_disk(&self, k: u64) -> bool {
        self.disk_taint.contains(&k)
    }

    /// copy the directory, give key k's file the given content, open a store on the copy and compare with the baseline
    fn reopen_with_prefix(&self, k: u64, content: &[u8], baseline: &[(u64, String)]) -> Option<String> {
        let tmp = scratch_dir("torn-");
        let st = tmp.path().join("record_store");
        std::fs::create_dir_all(&st).expect("mkdir");
        if let Ok(rd) = std::fs::read_dir(&self.storage) {
            for e in rd.flatten() {
                let _ = std::fs::copy(e.path(), st.join(e.file_name()));
            }
        }
        let name = rs::generate_filename(&self.keys[&k].0);
        std::fs::write(st.join(&name), content).expect("write prefix");
        let rt = new_lane_rt();
        let (cmd_tx, _cmd_rx) = mpsc::channel(8);
        let (ev_tx, _ev_rx) = mpsc::channel(8);
        let store = {
            let _g = rt.enter();
            rs::with_config(self.peer, self.config(tmp.path()), ev_tx, cmd_tx)
        };
        for (kk, want) in baseline {
            let key = &self.keys[kk].0;
            let got = match rs::get(&store, key) {
                None => "none".to_string(),
                Some(r) => match self.vals.get(&r.value) {
                    Some(v) => format!("some {v}"),
                    None => format!("some ?{}", hex::encode(&r.value[..r.value.len().min(12)])),
                },
            };
            if *kk == k {
                if got != "none" || rs::contains(&store, key) || st.join(&name).exists() {
                    return Some(format!("reopened store gives get = {got}, listed = {}, file kept = {}", rs::contains(&store, key), st.join(&name).exists()));
                }
            } else if got != *want {
                return Some(format!("other key {kk} reads {got} instead of {want}"));
            }
        }
        None
    }
}

/// all prefixes for short files; for long ones the first and last 64 plus a spread
fn prefix_lengths(len: usize) -> Vec<usize> {
    if len <= 272 {
        (0..len).collect()
    } else {
        let mut v: Vec<usize> = (0..64).chain(len - 64..len).collect();
        let step = (len - 128) / 64;
        v.extend((0..64).map(|i| 64 + i * step.max(1)));
        v.sort();
        v.dedup();
        v.retain(|n| *n < len);
        v
    }
}

// ---------------------------------------------------------------------------------------------------------
// generation
// ---------------------------------------------------------------------------------------------------------

#[derive(Clone, Copy, PartialEq)]
enum Mode {
    Sched,
    Crash,
    Cap,
    /// the store inside a real node `SwarmDriver`, commands through the real `handle_local_cmd`
    Cmd,
}

struct Gen {
    mode: Mode,
    nkeys: u64,
    key_base: u64,
    /// acknowledge every put before the next one
    disciplined: bool,
}

fn pick_value(rng: &mut Rng, w: &World, k: u64) -> u64 {
    if let Some(p) = w.puts.get(&k) {
        if rng.chance(1, 4) {
            return *rng.pick(p);
        }
    }
    if w.maxval < 100_000 && rng.chance(3, 4) {
        // a small max_value_bytes is configured: every length from max-20 to max+2
        // (put_verified has no size test; with encryption the file is 16 bytes longer than the value)
        let len = (w.maxval as u64).saturating_sub(20) + rng.below(23);
        let c = match rng.below(20) {
            0 => 1,      // no valid header
            1..=10 => 2, // chunk header
            _ => 0,      // another valid header
        };
        return 1000 + 3 * len + c;
    }
    let base = rng.below(40) * 3;
    match rng.below(20) {
        0 => base + 2,
        1..=10 => base,
        _ => base + 1,
    }
}

fn pick_rt(rng: &mut Rng, v: u64) -> String {
    if rng.chance(1, 10) {
        let other = format!("n{}", rng.below(12));
        return rng.pick(&["c".to_string(), "s".to_string(), other]).clone();
    }
    match v % 3 {
        0 => "c".into(),
        1 if (v / 3) % 7 == 2 => "s".into(),
        _ => format!("n{v}"),
    }
}

fn setrange_line(rng: &mut Rng, w: &World) -> String {
    let ks: Vec<&u64> = w.keys.keys().collect();
    let two256 = BigUint::from(1u8) << 256;
    let r = match rng.below(8) {
        0 => BigUint::from(0u8),
        1 => &two256 - 1u8,
        2 => BigUint::from_bytes_be(&rng.bytes(32)),
        _ => {
            let d = w.keys[*rng.pick(&ks)].1.clone();
            match rng.below(3) {
                0 => d,
                1 => d + 1u8,
                _ => if d > BigUint::from(0u8) { d - 1u8 } else { d },
            }
        }
    };
    let r = if r >= two256 { &two256 - 1u8 } else { r };
    format!("setrange {r}")
}

fn gen_op(rng: &mut Rng, w: &World, g: &Gen) -> String {
    let k = g.key_base + rng.below(g.nkeys);
    let runnable = w.runnable();
    let deliverable = w.deliverable();
    if g.disciplined {
        // settle completely before anything else
        if let Some(id) = runnable.first() {
            return format!("run {id}");
        }
        if let Some(id) = deliverable.first() {
            return format!("deliver {id}");
        }
    }
    if w.defer && runnable.len() >= 2 && rng.chance(1, 2) {
        return format!("run {}", rng.pick(&runnable));
    }
    let roll = rng.below(100);
    let (p_put, p_remove, p_run, p_deliver) = match g.mode {
        Mode::Sched => (28, 8, 24, 18),
        Mode::Crash => (34, 8, 22, 14),
        Mode::Cap => (36, 5, 20, 18),
        Mode::Cmd => (32, 6, 24, 20),
    };
    if roll < p_put {
        let mut v = pick_value(rng, w, k);
        if g.mode == Mode::Cmd {
            // mostly records the `PutLocalRecord` handler accepts (chunk / transaction / register / scratchpad headers)
            let mut tries = 0;
            while handler_rt(v).is_none() && tries < 20 && !rng.chance(1, 15) {
                v = pick_value(rng, w, k);
                tries += 1;
            }
            return format!("cput {k} {v}");
        }
        return format!("put {k} {v} {}", pick_rt(rng, v));
    }
    if roll < p_put + p_remove && !(g.mode == Mode::Cmd && w.removes_in_a_row >= 4) {
        return format!("remove {k}");
    }
    if roll < p_put + p_remove + p_run {
        if rng.chance(1, 25) {
            // an id that is not the oldest task of its key, or no task at all
            let all = w.pending_tasks();
            if let Some((id, _)) = all.iter().find(|(id, t)| !w.legal_run(*id, t)) {
                return format!("run {id}");
            }
            return format!("run {}", w.next_id + rng.below(3));
        }
        // a disk fault on a write task that could run now: the open fails, or only the first b bytes fit
        let failed_pending = w.notes.iter().filter(|n| matches!(n.2, LocalSwarmCmd::RemoveFailedLocalRecord { .. })).count() as u32;
        if !w.defer && rng.chance(1, 8) && !(g.mode == Mode::Cmd && w.removes_in_a_row + failed_pending >= 4) {
            let writes: Vec<(u64, u64)> = w
                .pending_tasks()
                .iter()
                .filter_map(|(id, t)| match t {
                    TKind::Write { v, .. } if runnable.contains(id) => Some((*id, *v)),
                    _ => None,
                })
                .collect();
            if !writes.is_empty() {
                let (id, v) = *rng.pick(&writes);
                let len = file_len(v) as u64;
                return match rng.below(6) {
                    0 | 1 => format!("runfail {id} open"),
                    2 => format!("runfail {id} full 0"),
                    3 => format!("runfail {id} full {}", len.saturating_sub(1)),
                    4 => format!("runfail {id} full {}", len + rng.below(2)),
                    _ => format!("runfail {id} full {}", rng.below(len.max(1))),
                };
            }
        }
        if !runnable.is_empty() {
            return format!("run {}", rng.pick(&runnable));
        }
    }
    if roll < p_put + p_remove + p_run + p_deliver {
        if rng.chance(1, 25) {
            if let Some(n) = w.notes.iter().find(|n| !deliverable.contains(&n.0)) {
                return format!("deliver {}", n.0);
            }
            return format!("deliver {}", w.next_id + rng.below(3));
        }
        if !deliverable.is_empty() {
            return format!("deliver {}", rng.pick(&deliverable));
        }
    }
    if rng.chance(1, 12) {
        let v = pick_value(rng, w, k);
        return if rng.chance(1, 2) { format!("kadput {k} {v}") } else { format!("len {v}") };
    }
    match rng.below(if g.mode == Mode::Cap { 16 } else { 11 }) {
        0 | 1 => format!("get {k}"),
        2 => format!("contains {k}"),
        3 => "addrs".into(),
        4 => "ls".into(),
        5 => "cache".into(),
        6 => "pending".into(),
        7 => "dist".into(),
        8 => "far".into(),
        9 => format!("metrics {k}"),
        10 => format!("get {k}"),
        11 | 12 => setrange_line(rng, w),
        13 => "payment".into(),
        14 => "cleanup".into(),
        _ => format!("metrics {k}"),
    }
}

fn crash_line(rng: &mut Rng, w: &World) -> String {
    let mut line = "crash".to_string();
    let mut seen = HashSet::new();
    let mut cands: Vec<(u64, u64, u64)> = vec![];
    for l in &w.lanes {
        if let Some((id, TKind::Write { k, v })) = l.tasks.front().cloned() {
            if w.legal_run(id, &TKind::Write { k, v }) && seen.insert(k) {
                cands.push((id, k, v));
            }
        }
    }
    rng.shuffle(&mut cands);
    let n_torn = match rng.below(6) {
        0 => 0,
        1..=3 => 1,
        _ => 2,
    };
    for (id, _k, v) in cands.into_iter().take(n_torn) {
        let len = file_len(v);
        if len == 0 {
            continue;
        }
        let n = match rng.below(8) {
            0 => 0,
            1 => len - 1,
            2 => 16.min(len - 1),
            3 => 15.min(len - 1),
            4 => 17.min(len - 1),
            5 => 3.min(len - 1),
            _ => rng.below(len as u64) as usize,
        };
        line.push_str(&format!(" {id}:{n}"));
    }
    line
}

/// a stop followed by 0-3 interrupted starts and a completed one: mostly with the node's own network id (the restart
/// with the same identity the property speaks about), sometimes with another id (which wipes); interruption limits 0
/// (killed right after the truncate), 1-2 bytes (torn prefix; may read as another id) and more than the id is long
fn start_lines(rng: &mut Rng, w: &World) -> Vec<String> {
    const IDS: [u64; 6] = [1, 2, 7, 12, 123, 255];
    let own: u64 = w.net.as_ref().and_then(|s| s.parse().ok()).unwrap_or(1);
    let pick_id = |rng: &mut Rng| if rng.chance(3, 4) { own } else { *rng.pick(&IDS) };
    let mut v = vec![];
    for _ in 0..rng.below(4) {
        let id = pick_id(rng);
        v.push(match rng.below(5) {
            0 | 1 => format!("start {id} interrupt"),
            2 => format!("start {id} interrupt 1"),
            3 => format!("start {id} interrupt 2"),
            _ => format!("start {id} interrupt {}", 3 + rng.below(3)),
        });
    }
    v.push(format!("start {}", pick_id(rng)));
    v
}

struct Runner {
    out: Out,
    w: Option<World>,
    n_hist: u64,
}

impl Runner {
    fn line(&mut self, line: &str) -> String {
        let ws: Vec<&str> = line.split_whitespace().collect();
        let (rec, res) = match ws.as_slice() {
            [init @ ("init" | "initcmd"), m, c, p, rest @ ..] if rest.len() <= 2 && !(*init == "initcmd" && !rest.is_empty()) && rest.get(1).map(|x| x.parse::<usize>().map(|n| n >= 1).unwrap_or(false)).unwrap_or(true) => match (
                m.parse::<usize>(),
                c.parse::<usize>(),
                p.parse::<u64>(),
                rest.first().map(|x| x.parse::<usize>()).unwrap_or(Ok(ant_networking::MAX_PACKET_SIZE)),
            ) {
                (Ok(m), Ok(c), Ok(p), Ok(mv)) if c >= 1 => {
                    self.flush_fails();
                    self.w = None;
                    let mut w = World::new(m, c, p, mv, *init == "initcmd", rest.get(1).and_then(|x| x.parse::<usize>().ok()));
                    w.hist.push(line.to_string());
                    self.w = Some(w);
                    self.n_hist += 1;
                    (line.to_string(), "ok".to_string())
                }
                _ => (line.to_string(), "bad-op".to_string()),
            },
            _ => {
                let Some(w) = self.w.as_mut() else {
                    self.out.line(line, "bad-op");
                    return "bad-op".into();
                };
                // resolve `@` forms to the harness's own distances
                let resolved = match ws.as_slice() {
                    ["key", k, d] if d.starts_with('@') => match k.parse::<u64>() {
                        // distance (sha2 + XOR, computed here), then the raw bytes it is the distance of: the record key
                        // and this node's peer id — the model recomputes the number with its own SHA-256
                        Ok(kk) => format!("key {k} {} {} {}", w.dist_of(&RecordKey::new(&key_bytes(kk))), hex::encode(key_bytes(kk)), hex::encode(w.peer.to_bytes())),
                        Err(_) => line.to_string(),
                    },
                    ["setrange", r] if r.starts_with('@') => {
                        let body = &r[1..];
                        let (kstr, delta) = if let Some(b) = body.strip_suffix('+') { (b, 1i8) } else if let Some(b) = body.strip_suffix('-') { (b, -1) } else { (body, 0) };
                        match kstr.parse::<u64>().ok().and_then(|k| w.keys.get(&k)) {
                            Some((_, d)) => {
                                let v = match delta {
                                    1 => d + 1u8,
                                    -1 => d - 1u8,
                                    _ => d.clone(),
                                };
                                format!("setrange {v}")
                            }
                            None => line.to_string(),
                        }
                    }
                    _ => line.to_string(),
                };
                w.hist.push(resolved.clone());
                let res = match catch_unwind(AssertUnwindSafe(|| w.exec(&resolved))) {
                    Ok(r) => r,
                    Err(_) => {
                        w.fails.push(("no-panic".into(), format!("the store panicked on `{resolved}`")));
                        "panic".into()
                    }
                };
                if res != "panic" && res != "bad-op" {
                    let mutating = !ws.is_empty() && !matches!(ws[0], "bad-header" | "kadput" | "len" | "flen" | "get" | "contains" | "addrs" | "ls" | "dist" | "far" | "cache" | "pending" | "metrics" | "key" | "vfile");
                    if mutating && w.up && res != "down" {
                        let _ = catch_unwind(AssertUnwindSafe(|| {
                            w.check_views();
                            w.check_settled();
                            if w.keys.len() > 64 && matches!(ws[0], "cleanup" | "remove") {
                                let listed = w.listed();
                                w.check_far(&listed);
                            }
                        }));
                    }
                }
                (resolved, res)
            }
        };
        let op = rec.split_whitespace().next().unwrap_or("").to_string();
        let class = if op == "run" || op == "runfail" { res.replace(' ', "-") } else { res.split_whitespace().next().unwrap_or("").to_string() };
        if matches!(op.as_str(), "put" | "run" | "runfail" | "deliver" | "crash" | "get" | "start") {
            let class = if class.parse::<u64>().is_ok() { "some".to_string() } else { class };
            self.out.count(&format!("{op}:{class}"));
        } else {
            self.out.count(&format!("{op}"));
        }
        self.out.line(rec, res.clone());
        self.flush_fails();
        res
    }

    fn flush_fails(&mut self) {
        if let Some(w) = self.w.as_mut() {
            let input = w.hist.join(" ; ");
            for (clause, what) in w.fails.drain(..) {
                self.out.oracle_fail(&clause, &input, &what);
            }
            for (key, n) in w.counts.drain(..) {
                self.out.count_n(&key, n);
            }
        }
    }

    fn world(&self) -> &World {
        self.w.as_ref().expect("world")
    }

    /// run everything pending in a random legal order, then observe the whole state
    fn settle_and_observe(&mut self, rng: &mut Rng, observe_extra: bool) -> Vec<String> {
        let mut guard = 0;
        loop {
            let r = self.world().runnable();
            let d = self.world().deliverable();
            if r.is_empty() && d.is_empty() {
                if !self.world().awaiting.is_empty() && guard < 50 {
                    // notifications still on the channel / waiting for room: the next non-run op takes them off
                    guard += 1;
                    self.line("pending");
                    if !self.world().deliverable().is_empty() {
                        continue;
                    }
                }
                break;
            }
            let n = (r.len() + d.len()) as u64;
            let i = rng.below(n) as usize;
            if i < r.len() {
                self.line(&format!("run {}", r[i]));
            } else {
                self.line(&format!("deliver {}", d[i - r.len()]));
            }
        }
        self.observe(observe_extra)
    }

    fn observe(&mut self, extra: bool) -> Vec<String> {
        let mut obs = vec![];
        let ks: Vec<u64> = self.world().keys.keys().copied().collect();
        for k in &ks {
            obs.push(self.line(&format!("get {k}")));
        }
        obs.push(self.line("addrs"));
        obs.push(self.line("ls"));
        self.line("pending");
        if extra {
            self.line("dist");
            self.line("far");
            self.line("cache");
            if let Some(k) = ks.first() {
                self.line(&format!("metrics {k}"));
            }
        }
        obs
    }
}

/// `store --start-child <root> <netid>`: the start-up step of `build_node` on this root, nothing else. The parent
/// (`start … interrupt`) gives this process an RLIMIT_FSIZE so that the kernel kills it at its first file write.
fn start_child(argv: &[String]) -> ! {
    let (Some(root), Some(id)) = (argv.first(), argv.get(1)) else { std::process::exit(2) };
    let root = PathBuf::from(root);
    let storage = root.join("record_store");
    match dhook::check_and_wipe_storage_dir_if_necessary(root, storage, id.clone()) {
        Ok(()) => std::process::exit(0),
        Err(_) => std::process::exit(3),
    }
}

fn main() {
    let argv: Vec<String> = std::env::args().collect();
    if argv.get(1).map(|s| s.as_str()) == Some("--start-child") {
        start_child(&argv[2..]);
    }
    let args = &common::parse_args();
    std::panic::set_hook(Box::new(|_| {}));
    let mode = match args.extra.get("mode").map(|s| s.as_str()) {
        Some("crash") => Mode::Crash,
        Some("cap") => Mode::Cap,
        Some("cmd") | Some("cmdrestart") => Mode::Cmd,
        _ => Mode::Sched,
    };
    // C02's restart family: the node is a real `SwarmDriver` built by `NetworkBuilder::build_node` — directory, seed and
    // start-up check are build_node's own — stopped and rebuilt on the same root with the same keypair again and again
    let restart_family = args.extra.get("mode").map(|s| s.as_str()) == Some("cmdrestart");
    let mut r = Runner { out: Out::new(&args.out), w: None, n_hist: 0 };
    let _ = SCRATCH.set(std::fs::canonicalize(&args.out).unwrap_or(args.out.clone()).join("scratch"));
    if let Some(p) = &args.replay {
        for l in common::read_lines(p) {
            r.line(&l);
        }
        r.flush_fails();
        r.out.finish();
        return;
    }
    let mut rng = Rng::new(args.seed ^ (mode as u64).wrapping_mul(0x51ED));
    if mode == Mode::Sched || mode == Mode::Cap {
        channel_backlog_corpus(&mut r);
    }
    if mode == Mode::Crash {
        interrupted_start_corpus(&mut r);
        header_like_ciphertext_corpus(&mut r);
    }
    write_fault_corpus(&mut r, mode == Mode::Cmd);
    if restart_family {
        same_identity_restart_corpus(&mut r);
    } else if mode == Mode::Cmd {
        key_length_corpus(&mut r, true);
        notification_bursts(&mut r, &mut rng);
    } else {
        size_limit_corpus(&mut r);
        key_length_corpus(&mut r, false);
    }
    let mut key_base = 0u64;
    for h in 0..args.n {
        // ---- one history, executed under up to three schedules ----
        let (max, cache, nkeys) = match mode {
            Mode::Sched => {
                // half of the histories cannot reach capacity, so their settled state is schedule independent
                let max = rng.range(2, 5);
                let nkeys = if rng.chance(1, 2) { rng.range(2, max) } else { rng.range(2, 6) };
                (max, *rng.pick(&[1u64, 1, 2, 2, 3, 3, 25]), nkeys)
            }
            Mode::Crash => (rng.range(2, 5), *rng.pick(&[1u64, 2, 3, 25]), rng.range(2, 6)),
            Mode::Cap => (*rng.pick(&[0u64, 1, 1, 2, 2, 2, 3, 3, 4]), *rng.pick(&[1u64, 2, 3, 25]), rng.range(3, 9)),
            Mode::Cmd => (rng.range(2, 6), *rng.pick(&[1u64, 2, 3, 25]), rng.range(2, 7)),
        };
        let peer = rng.below(1000);
        let small_maxval = if mode != Mode::Cap && mode != Mode::Cmd && rng.chance(1, 3) { Some(rng.range(64, 400)) } else { None };
        // a quarter of the sched / cap histories: a command channel of capacity 1-4 that the harness does not drain
        // while tasks complete
        let small_chan = if (mode == Mode::Sched || mode == Mode::Cap) && rng.chance(1, 4) { Some(rng.range(1, 4)) } else { None };
        let g = Gen { mode, nkeys, key_base, disciplined: mode == Mode::Cap && rng.chance(1, 3) };
        key_base = (key_base + nkeys) % 3000;
        let nops = rng.range(5, 60);
        let schedules = if mode == Mode::Sched { 3 } else { 1 };
        let mut script: Vec<String> = vec![];
        let mut finals: Vec<(bool, Vec<String>)> = vec![];
        for sch in 0..schedules {
            match small_maxval {
                _ if mode == Mode::Cmd => r.line(&format!("initcmd {max} {cache} {peer}")),
                mv if small_chan.is_some() => r.line(&format!("init {max} {cache} {peer} {} {}", mv.unwrap_or(ant_networking::MAX_PACKET_SIZE as u64), small_chan.expect("chan"))),
                Some(mv) => r.line(&format!("init {max} {cache} {peer} {mv}")),
                None => r.line(&format!("init {max} {cache} {peer}")),
            };
            for k in g.key_base..g.key_base + nkeys {
                r.line(&format!("key {k} @"));
            }
            if sch == 0 {
                let mut crashes = 0;
                // half of the crash histories run on a root whose version file names the node's network id
                let with_starts = mode == Mode::Crash && rng.chance(1, 2);
                if with_starts {
                    r.line(&format!("start {}", rng.pick(&[1u64, 1, 2, 12])));
                }
                for i in 0..nops {
                    if with_starts && crashes < 3 && i > 2 && rng.chance(1, 10) {
                        for l in start_lines(&mut rng, r.world()) {
                            r.line(&l);
                            r.line("vfile");
                            r.line("ls");
                        }
                        r.observe(true);
                        crashes += 1;
                        continue;
                    }
                    if mode == Mode::Crash && crashes < 2 && i > 2 && rng.chance(1, 12) {
                        let l = crash_line(&mut rng, r.world());
                        r.line(&l);
                        r.observe(true);
                        crashes += 1;
                        continue;
                    }
                    if restart_family && i > 1 && rng.chance(1, 7) {
                        // settle some of what is pending, then stop and rebuild the node (build_node on the same root)
                        for _ in 0..rng.below(4) {
                            let run = r.world().runnable();
                            let del = r.world().deliverable();
                            if let Some(id) = run.first() {
                                r.line(&format!("run {id}"));
                            } else if let Some(id) = del.first() {
                                r.line(&format!("deliver {id}"));
                            }
                        }
                        r.line("crash");
                        r.observe(true);
                        continue;
                    }
                    if (mode == Mode::Cap || mode == Mode::Cmd) && rng.chance(1, 60) {
                        r.line("crash");
                        r.observe(true);
                        continue;
                    }
                    let l = gen_op(&mut rng, r.world(), &g);
                    let first = l.split_whitespace().next().unwrap_or("").to_string();
                    if matches!(first.as_str(), "put" | "cput" | "remove" | "setrange" | "cleanup" | "payment") {
                        script.push(l.clone());
                    }
                    r.line(&l);
                }
                if restart_family {
                    r.settle_and_observe(&mut rng, false);
                    r.line("crash");
                    r.observe(true);
                }
                if mode == Mode::Crash {
                    if with_starts && rng.chance(1, 2) {
                        for l in start_lines(&mut rng, r.world()) {
                            r.line(&l);
                            r.line("vfile");
                        }
                    } else {
                        let l = crash_line(&mut rng, r.world());
                        r.line(&l);
                    }
                    r.observe(true);
                }
            } else {
                // same store operations, another interleaving of task completions and deliveries
                let mut i = 0;
                while i < script.len() {
                    let runnable = r.world().runnable();
                    let deliverable = r.world().deliverable();
                    match rng.below(10) {
                        0..=2 if !runnable.is_empty() => {
                            r.line(&format!("run {}", rng.pick(&runnable)));
                        }
                        3..=4 if !deliverable.is_empty() => {
                            r.line(&format!("deliver {}", rng.pick(&deliverable)));
                        }
                        5 => {
                            let k = g.key_base + rng.below(nkeys);
                            r.line(&format!("get {k}"));
                        }
                        _ => {
                            let l = script[i].clone();
                            r.line(&l);
                            i += 1;
                        }
                    }
                }
            }
            let obs = r.settle_and_observe(&mut rng, true);
            finals.push((r.world().clean, obs));
            r.out.nontrivial_case(&r.world().hist.join(";"));
        }
        // C01: the settled state does not depend on the schedule (no eviction/refusal/removal in flight)
        if finals.iter().all(|f| f.0) {
            r.out.count("history:schedule-independent-checked");
            for f in &finals[1..] {
                if f.1 != finals[0].1 {
                    let input = r.world().hist.join(" ; ");
                    r.out.oracle_fail("schedule-independent", &input, &format!("settled observations {:?} differ from those of another schedule of the same operations {:?}", f.1, finals[0].1));
                }
            }
        }
        let _ = h;
    }
    if mode == Mode::Crash {
        big_cleanup_crash_history(&mut r, &mut rng);
    }
    if mode == Mode::Cap || mode == Mode::Sched {
        big_cleanup_history(&mut r, &mut rng);
    }
    r.flush_fails();
    let n = r.n_hist;
    r.out.count_n("histories", n);
    r.out.finish();
}

/// Corpus (C01 / C02 / C10): the disk-write ERROR path of `put_verified`. A record is stored and acknowledged; its
/// overwrite fails (a) after 5 bytes — the file is a torn prefix, the previous complete version is gone, the cache serves
/// the new value, a repeated put of it is answered Ok by the cache-equality early return, after the cache entry is evicted
/// the key is listed but unreadable; then `RemoveFailedLocalRecord` is handled (real handler in cmd mode): not listed, not
/// readable, the spawned delete removes the file; (b) at the open — the old file stays whole until the handler's delete;
/// (c) with an empty file, followed by a stop and restart before the failure was handled: nothing torn or empty is served
/// or indexed. Every line is compared with the model; the oracles of `run_task` / `deliver` apply.
fn write_fault_corpus(r: &mut Runner, cmd: bool) {
    let put = |k: u64, v: u64| if cmd { format!("cput {k} {v}") } else { format!("put {k} {v} c") };
    for fault in ["full 5", "open", "full 0"] {
        r.line(if cmd { "initcmd 4 1 1" } else { "init 4 1 1" });
        r.line("key 1 @");
        r.line("key 2 @");
        let a = r.world().next_id;
        r.line(&put(1, 3));
        r.line(&format!("run {a}"));
        r.line(&format!("deliver {a}"));
        r.line("flen 1");
        let b = r.world().next_id;
        r.line(&put(1, 6));
        r.line(&format!("runfail {b} {fault}"));
        for l in ["pending", "flen 1", "ls", "get 1", "cache"] {
            r.line(l);
        }
        r.line(&put(1, 6));
        let c = r.world().next_id;
        r.line(&put(2, 9));
        for l in ["cache", "get 1", "contains 1", "addrs", "metrics 1"] {
            r.line(l);
        }
        if fault == "full 0" {
            r.line("crash");
            for l in ["get 1", "contains 1", "addrs", "ls", "flen 1", "pending"] {
                r.line(l);
            }
            continue;
        }
        let d = r.world().next_id;
        r.line(&format!("deliver {b}"));
        for l in ["get 1", "contains 1", "addrs", "ls", "pending", "metrics 1"] {
            r.line(l);
        }
        r.line(&format!("run {d}"));
        r.line("ls");
        r.line("flen 1");
        r.line(&format!("run {c}"));
        r.line(&format!("deliver {c}"));
        for l in ["get 1", "get 2", "addrs", "ls", "pending"] {
            r.line(l);
        }
    }
}

/// Corpus (C02, restart family): "restarting with the same identity" through `NetworkBuilder::build_node` itself. Records of
/// the three kinds the put handler accepts are stored and acknowledged; the node is dropped and rebuilt on the same root
/// with the same keypair, twice; a record stored before the restart must be served after it (oracle clause
/// restart-keeps-completed inside `crash`), listed with its type, and a record stored between the restarts as well.
fn same_identity_restart_corpus(r: &mut Runner) {
    r.line("initcmd 6 2 3");
    for k in 1..=4 {
        r.line(&format!("key {k} @"));
    }
    for (k, v) in [(1u64, 3u64), (2, 4), (3, 19)] {
        let id = r.world().next_id;
        r.line(&format!("cput {k} {v}"));
        r.line(&format!("run {id}"));
        r.line(&format!("deliver {id}"));
    }
    r.line("payment");
    r.line("crash");
    r.observe(true);
    let id = r.world().next_id;
    r.line("cput 4 6");
    r.line(&format!("run {id}"));
    // its notification is lost in the stop: the completed write is still served after the restart
    r.line("crash");
    r.observe(true);
    r.line("vfile");
}

/// Corpus (C02): the start-up step outside the store. A node whose version file names its network id stores two
/// records; it is stopped and started with the same id — interrupted at the first file write (nothing may be written:
/// the child exits, the version file and both record files are as before), again with a byte limit, then completed:
/// both records are served. Then a change of network id interrupted inside the version-file write (torn to a prefix
/// that reads as another id; empty), completed; every observation must agree with the model and nothing torn is served.
fn interrupted_start_corpus(r: &mut Runner) {
    r.line("init 4 2 1");
    r.line("key 1 @");
    r.line("key 2 @");
    r.line("vfile");
    r.line("start 1");
    let id1 = r.world().next_id;
    r.line("put 1 3 c");
    r.line(&format!("run {id1}"));
    r.line(&format!("deliver {id1}"));
    let id2 = r.world().next_id;
    r.line("put 2 7 n7");
    r.line(&format!("run {id2}"));
    r.line(&format!("deliver {id2}"));
    r.line("payment");
    for l in ["start 1 interrupt", "vfile", "ls", "get 1", "start 1 interrupt 1", "vfile", "ls", "start 1 interrupt 5", "start 1"] {
        r.line(l);
    }
    r.observe(true);
    r.line("vfile");
    // a write in flight and a delete pending when the node stops for a same-id restart
    let id3 = r.world().next_id;
    r.line("put 1 6 c");
    r.line("remove 2");
    r.line("pending");
    for l in ["start 1 interrupt", "start 1"] {
        r.line(l);
    }
    r.observe(true);
    let _ = id3;
    // another network id: interrupted inside the version-file write, then completed
    for l in ["start 12 interrupt 1", "vfile", "ls", "start 1", "vfile"] {
        r.line(l);
    }
    r.observe(true);
    let id4 = r.world().next_id;
    r.line("put 1 3 c");
    r.line(&format!("run {id4}"));
    r.line(&format!("deliver {id4}"));
    for l in ["start 12 interrupt", "vfile", "ls", "start 12 interrupt 1", "vfile", "start 12", "vfile"] {
        r.line(l);
    }
    r.observe(true);
    for l in ["start 123 interrupt 2", "vfile", "start 12", "vfile", "metrics 1"] {
        r.line(l);
    }
    r.observe(true);
    r.out.nontrivial_case("interrupted-start-corpus");
}

/// Corpus (C02/C01): records within a few bytes of `max_value_bytes`, completely written and registered,
/// must be served again after a restart. `put_verified` has no size test, `RecordStore::put` refuses
/// `len >= max`, and an encrypted file is 16 bytes longer than its value.
fn size_limit_corpus(r: &mut Runner) {
    let max = 100u64;
    // max-1, max-16, max-17 first, on their own
    r.line(&format!("init 8 2 7 {max}"));
    for (i, len) in [max - 1, max - 16, max - 17].iter().enumerate() {
        let k = i as u64 + 1;
        let v = 1000 + 3 * len + 2;
        r.line(&format!("key {k} @"));
        r.line(&format!("len {v}"));
        r.line(&format!("kadput {k} {v}"));
        let id = r.world().next_id;
        r.line(&format!("put {k} {v} c"));
        r.line(&format!("run {id}"));
        r.line(&format!("deliver {id}"));
    }
    r.line("crash");
    r.observe(true);
    r.out.nontrivial_case("size-limit-corpus-3");
    // then every length from max-20 to max+2, with both valid header classes
    r.line(&format!("init 40 3 8 {max}"));
    let lens: Vec<u64> = (max - 20..=max + 2).collect();
    for (i, len) in lens.iter().enumerate() {
        let k = 100 + i as u64;
        let c = if i % 2 == 0 { 2 } else { 0 };
        let v = 1000 + 3 * len + c;
        r.line(&format!("key {k} @"));
        r.line(&format!("kadput {k} {v}"));
        let id = r.world().next_id;
        let rt = if c == 2 { "c".to_string() } else { format!("n{v}") };
        r.line(&format!("put {k} {v} {rt}"));
        r.line(&format!("run {id}"));
        r.line(&format!("deliver {id}"));
    }
    r.line("addrs");
    r.line("crash");
    r.observe(true);
    r.out.nontrivial_case("size-limit-corpus-all");
}

/// What the store writes into the record file of `key` for `value` under encryption seed `seed`, computed here with
/// the aes-gcm-siv / hkdf crates (HKDF-SHA256, salt "autonomi_record_store"; nonce = 4 seed bytes + first 8 key bytes).
fn independent_ciphertext(seed: &[u8; 16], key: &[u8], value: &[u8]) -> Vec<u8> {
    use aes_gcm_siv::aead::{Aead, KeyInit};
    let hk = hkdf::Hkdf::<Sha256>::new(Some(b"autonomi_record_store"), seed);
    let mut okm = [0u8; 32];
    hk.expand(b"", &mut okm).expect("hkdf");
    let cipher = aes_gcm_siv::Aes256GcmSiv::new_from_slice(&okm).expect("key");
    let mut nonce = seed[..4].to_vec();
    nonce.extend_from_slice(key);
    nonce.resize(12, 0);
    cipher.encrypt(aes_gcm_siv::Nonce::from_slice(&nonce), value).expect("encrypt")
}

/// Corpus (C02): records whose ENCRYPTED file happens to begin with bytes the record-header parser accepts (about one
/// in 8000; found by a deterministic search with the harness's own encryption). Their files are torn at prefix lengths
/// from 3 bytes on and the node restarted: a torn file must never be indexed or served, whatever its first bytes look like.
fn header_like_ciphertext_corpus(r: &mut Runner) {
    if !rs::ENCRYPT_RECORDS {
        return;
    }
    let peer = 77u64;
    let mut seed16 = [0u8; 16];
    seed16.copy_from_slice(&sha(&[b"seed", &peer.to_le_bytes()])[..16]);
    let mut hits: Vec<(u64, u64, u8)> = vec![];
    let values: Vec<u64> = (0..300u64).step_by(3).chain((12..112u64).map(|len| 1000 + 3 * len + 2)).collect();
    'search: for k in 0..2000u64 {
        let key = key_bytes(k);
        for v in &values {
            let ct = independent_ciphertext(&seed16, &key, &value_bytes(*v));
            if ct.len() > 3 && ant_protocol::storage::RecordHeader::try_deserialize(&ct[..3]).is_ok() && !hits.iter().any(|h| h.0 / 3 == k / 3) {
                hits.push((k, *v, ct[0]));
                if hits.len() >= 3 {
                    break 'search;
                }
            }
        }
    }
    r.out.count_n("header-like-ciphertexts-found", hits.len() as u64);
    for (k, v, _) in hits {
        r.line(&format!("init 8 2 {peer}"));
        r.line(&format!("key {k} @"));
        let len = file_len(v);
        {
            // the search is only as good as the harness's own encryption: compare once with a file the store wrote
            let id = r.world().next_id;
            r.line(&format!("put {k} {v} c"));
            r.line(&format!("run {id}"));
            let w = r.world();
            let on_disk = std::fs::read(w.storage.join(rs::generate_filename(&w.keys[&k].0))).unwrap_or_default();
            if on_disk != independent_ciphertext(&w.seed16, &key_bytes(k), &value_bytes(v)) {
                r.out.notes.push(format!("the harness's own encryption of value {v} under key {k} differs from the file the store wrote: the header-like-ciphertext search is blind"));
                r.out.count("independent-ciphertext-mismatch");
            }
            r.line("crash");
        }
        for n in [3usize, 4, 5, 16, 17, len - 1] {
            let id = r.world().next_id;
            r.line(&format!("put {k} {v} c"));
            r.line(&format!("crash {id}:{n}"));
            r.line(&format!("get {k}"));
            r.line("addrs");
            r.line("ls");
        }
        r.out.nontrivial_case(&format!("header-like-ciphertext-{k}-{v}"));
    }
}

/// Corpus (C01/C10): a backlog on the local command channel. The channel has room for 2 commands; six writes
/// complete before the harness takes anything off it, so four notifications have to wait for room. None may get
/// lost: after draining and handling them every accepted write is listed, readable and counted.
fn channel_backlog_corpus(r: &mut Runner) {
    for chan in [2u64, 1] {
        r.line(&format!("init 8 2 12 {} {chan}", ant_networking::MAX_PACKET_SIZE));
        for k in 30..36u64 {
            r.line(&format!("key {k} @"));
        }
        let mut ids = vec![];
        for k in 30..36u64 {
            ids.push(r.world().next_id);
            r.line(&format!("put {k} {} c", 90 + 3 * k));
        }
        for id in &ids {
            r.line(&format!("run {id}"));
        }
        r.line("pending");
        for id in &ids {
            r.line(&format!("deliver {id}"));
        }
        r.observe(true);
        for k in 30..36u64 {
            r.line(&format!("contains {k}"));
        }
        r.out.nontrivial_case(&format!("channel-backlog-{chan}"));
    }
}

/// Corpus (C01/C02): record keys are arbitrary byte strings — 8-byte, 32-byte and 34-byte (PeerId-like) keys are
/// put, settled, read, listed, and must all be there again after a restart.
fn key_length_corpus(r: &mut Runner, cmd: bool) {
    r.line(if cmd { "initcmd 20 3 9" } else { "init 20 3 9" });
    // ids 0..9 cover key lengths 8, 34, 31, 33, 64, 2 and 32
    for k in 0..10u64 {
        r.line(&format!("key {k} @"));
    }
    for k in 0..10u64 {
        let v = 60 + 3 * k;
        let id = r.world().next_id;
        r.line(&if cmd { format!("cput {k} {v}") } else { format!("put {k} {v} c") });
        r.line(&format!("run {id}"));
        r.line(&format!("deliver {id}"));
    }
    r.observe(true);
    r.line("crash");
    r.observe(true);
    r.out.nontrivial_case(if cmd { "key-length-corpus-cmd" } else { "key-length-corpus" });
}

/// C01 through the real handlers: bursts of 26..60 puts whose completion notifications queue up behind them, with
/// the default cache size (25) and with a small one; every write completes, then the notifications are handled in
/// a random per-key-FIFO order; afterwards every key must be listed and readable.
fn notification_bursts(r: &mut Runner, rng: &mut Rng) {
    for (i, cache) in [25u64, 25, 3].iter().enumerate() {
        let n = rng.range(26, 60);
        let base = 7000 + 100 * i as u64;
        r.line(&format!("initcmd 16384 {cache} {}", rng.below(1000)));
        for k in base..base + n {
            r.line(&format!("key {k} @"));
        }
        for k in base..base + n {
            let v = if rng.chance(1, 2) { 3 * rng.below(40) } else { 3 * (7 * rng.below(6) + rng.below(3)) + 1 };
            r.line(&format!("cput {k} {v}"));
        }
        r.settle_and_observe(rng, false);
        for k in base..base + n {
            r.line(&format!("contains {k}"));
        }
        r.out.nontrivial_case(&format!("notification-burst-{i}"));
    }
}

/// C02: a clean-up at the real threshold (`MAX_RECORDS_COUNT / 10` records, responsible range set) removes about
/// half of the records; the delete tasks of the first part complete, the node stops, and is restarted with the same
/// identity. A removal whose disk task completed stays removed (oracle clause `restart-absent`); a removal whose
/// task did not complete may come back (no expectation by the oracle, exact agreement with the model).
fn big_cleanup_crash_history(r: &mut Runner, rng: &mut Rng) {
    let thr = (rs::MAX_RECORDS_COUNT_VALUE / 10) as u64;
    r.line(&format!("init {} 3 {}", thr + 100, rng.below(1000)));
    let base = 20000u64;
    for k in base..base + thr {
        r.line(&format!("key {k} @"));
    }
    for k in base..base + thr {
        let v = (k % 4) * 21; // the smallest values (10-17 bytes), chunk header
        let id = r.world().next_id;
        r.line(&format!("put {k} {v} c"));
        r.line(&format!("run {id}"));
        r.line(&format!("deliver {id}"));
    }
    let mid = base + rng.below(thr);
    r.line(&format!("setrange @{mid}"));
    r.line("cleanup");
    r.line("pending");
    // the first part of the file deletions completes (clean-up spawns them in distance order, one lane)
    let total: usize = r.world().pending_tasks().iter().filter(|(_, t)| matches!(t, TKind::Delete { .. })).count();
    let done = if total == 0 { 0 } else { total / 2 + rng.below(total as u64 / 4 + 1) as usize };
    for _ in 0..done {
        let next = r.world().runnable().into_iter().find(|id| {
            r.world().pending_tasks().iter().any(|(i, t)| i == id && matches!(t, TKind::Delete { .. }))
        });
        match next {
            Some(id) => {
                r.line(&format!("run {id}"));
            }
            None => break,
        }
    }
    r.line("pending");
    r.line("crash");
    for k in (base..base + thr).step_by(5) {
        r.line(&format!("get {k}"));
    }
    r.line("addrs");
    r.line("ls");
    r.line(&format!("metrics {base}"));
    r.out.nontrivial_case("big-cleanup-crash");
}

/// C10: the clean-up threshold at the real `MAX_RECORDS_COUNT / 10`
fn big_cleanup_history(r: &mut Runner, rng: &mut Rng) {
    let thr = (rs::MAX_RECORDS_COUNT_VALUE / 10) as u64;
    r.line(&format!("init {} 3 {}", thr + 100, rng.below(1000)));
    let base = 5000u64;
    for k in base..base + thr + 1 {
        r.line(&format!("key {k} @"));
    }
    let mut put = |r: &mut Runner, k: u64| {
        let v = (k % 20) * 3;
        let before = r.world().next_id;
        r.line(&format!("put {k} {v} c"));
        r.line(&format!("run {before}"));
        r.line(&format!("deliver {before}"));
    };
    for k in base..base + thr - 1 {
        put(r, k);
    }
    // pick a range that splits the held set
    let mid = base + rng.below(thr - 1);
    r.line(&format!("setrange @{mid}"));
    r.line(&format!("metrics {base}"));
    r.line("cleanup"); // one below the threshold: nothing happens
    r.line(&format!("metrics {base}"));
    put(r, base + thr - 1);
    r.line("cleanup"); // at the threshold: everything at or beyond the range goes
    r.line(&format!("metrics {base}"));
    // the most recent puts are still in the read cache: a record the clean-up removed must not be served from it,
    // and putting it again must really store it (not be taken for a duplicate of the cached copy)
    r.line("cache");
    for k in base + thr - 4..base + thr {
        r.line(&format!("get {k}"));
        r.line(&format!("contains {k}"));
    }
    for k in base + thr - 2..base + thr {
        put(r, k);
        r.line(&format!("get {k}"));
    }
    r.line("cleanup");
    for k in base + thr - 2..base + thr {
        r.line(&format!("get {k}"));
    }
    r.line("dist");
    r.line("far");
    r.line("pending");
    loop {
        let run = r.world().runnable();
        if run.is_empty() {
            break;
        }
        for id in run {
            r.line(&format!("run {id}"));
        }
    }
    r.line("addrs");
    r.line("ls");
    r.line("crash");
    r.line("addrs");
    r.line(&format!("metrics {base}"));
    r.out.nontrivial_case("big-cleanup");
}
