//! C08 harness, component `fullglue`: the GLUE between the record store and the replication fetcher inside
//! `SwarmDriver::handle_local_cmd` (cmd.rs), executed together with both of them.
//!
//! Per history a real node `SwarmDriver` is built with `NetworkBuilder::build_node` and never run (as in
//! `store.rs --mode cmd`): real `NodeRecordStore` on disk with a small `max_records`, real `ReplicationFetcher`, real
//! kad routing table holding the four advertising holders. Commands go through the real `handle_local_cmd`
//! (`PutLocalRecord`, `AddLocalRecordAsStored`, `RemoveFailedLocalRecord`, `FetchCompleted`,
//! `TriggerIrrelevantRecordCleanup`), advertisements through the real `add_keys_to_replication_fetcher`. Every call is
//! made while a current-thread runtime ("lane") is ambient; the lane is then run until nothing is alive, so disk
//! writes/deletes complete, events are sent and every `AddLocalRecordAsStored` is waiting on the driver's own command
//! channel — the harness decides when those are handled (`ack` / `settle`).
//!
//! Op lines (inputs + data derived by the harness; derived parts are regenerated on `--replay`):
//!   new <seed> <max> <cache> <nkeys>   fresh node; <nkeys> keys are drawn and NUMBERED BY INCREASING DISTANCE to the node
//!   key <k> [<dist> <addr> <self>]     distance of key k (sha2 + XOR, computed here), the key bytes, the node's peer-id bytes
//!   put <k> <v> [<w>]                  PutLocalRecord{key k, value #v}; <w> = emitted list `h:k:t,...` (choice witness)
//!   advert <h> <k:t,...|-> [<w>]       add_keys_to_replication_fetcher(holder h, list)
//!   early <k> <t> [<w>]                FetchCompleted((key k, type t))
//!   ack | settle                       the oldest / every pending AddLocalRecordAsStored is handled
//!   rmfailed <k>                       RemoveFailedLocalRecord{key k}
//!   range <n>                          the run loop's distance-range update (store + fetcher)
//!   cleanup                            TriggerIrrelevantRecordCleanup
//! Value #v as in store.rs (`v % 3`: 0 chunk header, 1 another kind, 2 no valid header). Record type codes:
//! 0 = Chunk, 1 = Scratchpad, n+2 = NonChunk(content hash of value #n).
//! Output: res=.. emit=h:k:t,.. fail=.. tbf=k:t:h,.. ogf=k:t:h,.. frange=.. ffar=.. idx=k:t,.. sfar=.. srange=.. notes=n
use ant_networking::verif::record_store as rs;
use ant_networking::verif::LocalSwarmCmd;
use ant_networking::verif::{driver as dhook, event as hook};
use ant_networking::{Network, NetworkBuilder, NetworkError, NetworkEvent, SwarmDriver};
use ant_protocol::storage::RecordType;
use ant_protocol::NetworkAddress;
use common::{Out, Rng};
use libp2p::identity::Keypair;
use libp2p::kad::{Record, RecordKey};
use libp2p::PeerId;
use num_bigint::BigUint;
use sha2::{Digest, Sha256};
use std::collections::{BTreeMap, BTreeSet, HashMap, VecDeque};
use std::panic::{catch_unwind, AssertUnwindSafe};
use std::path::PathBuf;
use tokio::sync::mpsc;
use xor_name::XorName;

const N_HOLDERS: u32 = 4;

fn sha(parts: &[&[u8]]) -> [u8; 32] {
    let mut h = Sha256::new();
    for p in parts {
        h.update(p);
    }
    h.finalize().into()
}

/// independent distance: big-endian 256-bit XOR of the SHA-256 digests
fn xor_distance(a: &[u8], b: &[u8]) -> BigUint {
    let ha = sha(&[a]);
    let hb = sha(&[b]);
    let x: Vec<u8> = ha.iter().zip(hb.iter()).map(|(p, q)| p ^ q).collect();
    BigUint::from_bytes_be(&x)
}

/// length in bytes of value #v (same function as store.rs / `Store.valLen`)
fn val_len(v: u64) -> usize {
    (if v >= 1000 {
        (v - 1000) / 3
    } else if v == 2 {
        0
    } else if v == 5 {
        1
    } else if v == 8 {
        2
    } else if v % 7 == 0 {
        10 + v % 8
    } else if v % 7 == 5 {
        200 + (v * 13) % 200
    } else if v % 7 == 6 {
        1000 + (v * 131) % 3000
    } else {
        10 + (v * 37) % 110
    }) as usize
}

/// value id -> record value bytes (same as store.rs)
fn value_bytes(v: u64) -> Vec<u8> {
    let len = val_len(v);
    let mut out = match v % 3 {
        0 => vec![0x91, 0x01],
        1 => vec![0x91, [2u8, 3, 5, 0, 4, 6, 7][((v / 3) % 7) as usize]],
        _ => {
            if (v / 3) % 2 == 0 {
                vec![0x91, 0x2a]
            } else {
                vec![0xc1, 0x00]
            }
        }
    };
    out.extend(v.to_le_bytes());
    let mut r = Rng::new(v.wrapping_mul(0x9E37) ^ 0xABCD);
    while out.len() < len {
        out.push(r.next() as u8);
    }
    out.truncate(len);
    out
}

fn type_from(t: u32) -> RecordType {
    match t {
        0 => RecordType::Chunk,
        1 => RecordType::Scratchpad,
        n => RecordType::NonChunk(XorName::from_content(&value_bytes((n - 2) as u64))),
    }
}

fn holder_peer(h: u32) -> PeerId {
    let mut sk = sha(&[b"fg-holder", &h.to_le_bytes()]);
    Keypair::ed25519_from_bytes(&mut sk).expect("keypair").public().to_peer_id()
}

fn dummy_addr(i: u32) -> libp2p::Multiaddr {
    format!("/ip4/10.0.{}.{}/udp/{}/quic-v1", (i >> 8) & 0xff, i & 0xff, 12000 + i).parse().expect("multiaddr")
}

static SCRATCH: std::sync::OnceLock<PathBuf> = std::sync::OnceLock::new();

/// never under /tmp: a `NodeRecordStore` with the default config scans the temp dir and deletes what it cannot decrypt
fn scratch_dir() -> tempfile::TempDir {
    let base = SCRATCH.get().cloned().unwrap_or_else(|| PathBuf::from("/verif/work/fullglue-scratch"));
    std::fs::create_dir_all(&base).expect("scratch base");
    tempfile::Builder::new().prefix("fg-").tempdir_in(base).expect("tempdir")
}

#[derive(Clone, Debug, PartialEq, Eq, PartialOrd, Ord)]
struct E {
    k: u32,
    t: u32,
    h: u32,
}

struct World {
    _root: tempfile::TempDir,
    base_rt: Option<tokio::runtime::Runtime>,
    lane: tokio::runtime::Runtime,
    driver: Option<Box<SwarmDriver>>,
    network: Option<Network>,
    events: Option<mpsc::Receiver<NetworkEvent>>,
    self_bytes: Vec<u8>,
    max: usize,
    keys: Vec<(RecordKey, BigUint)>,
    key_ids: HashMap<Vec<u8>, u32>,
    holder_ids: HashMap<PeerId, u32>,
    hashes: HashMap<XorName, u64>,
    notes: VecDeque<LocalSwarmCmd>,
    history: Vec<String>,
    other_events: u64,
    unexpected_cmds: u64,
    /// a put has been refused and no held key has left the index since (hypothesis of `full_history_partial`)
    bounded: bool,
}

impl Drop for World {
    fn drop(&mut self) {
        if let Some(base) = self.base_rt.take() {
            {
                let _g = base.enter();
                self.driver = None;
                self.network = None;
                self.events = None;
            }
            base.shutdown_background();
        }
    }
}

struct Snapshot {
    tbf: Vec<E>,
    ogf: Vec<E>,
    frange: Option<BigUint>,
    ffar: Option<BigUint>,
    idx: BTreeMap<u32, u32>,
    sfar: Option<u32>,
    srange: Option<BigUint>,
}

impl World {
    fn new(seed: u64, max: usize, cache: usize, nkeys: u32) -> World {
        let root = scratch_dir();
        let mut sk = sha(&[b"fg-self", &seed.to_le_bytes()]);
        let kp = Keypair::ed25519_from_bytes(&mut sk).expect("keypair");
        let peer = PeerId::from(kp.public());
        let self_bytes = peer.to_bytes();
        let base = tokio::runtime::Builder::new_current_thread().enable_all().build().expect("runtime");
        let (network, events, driver) = {
            let _g = base.enter();
            let mut b = NetworkBuilder::new(kp, true);
            b.listen_addr("127.0.0.1:0".parse().expect("addr"));
            b.build_node(root.path().to_path_buf()).expect("build_node")
        };
        let mut driver = Box::new(driver);
        {
            let store = rs::node_store_mut(&mut driver).expect("node store");
            rs::set_capacities(store, max, cache.max(1));
        }
        let mut holder_ids = HashMap::new();
        {
            let _g = base.enter();
            for h in 0..N_HOLDERS {
                let p = holder_peer(h);
                holder_ids.insert(p, h);
                let _ = hook::add_address(&mut driver, &p, dummy_addr(h));
            }
        }
        // the keys of this history, numbered by increasing distance to the node
        let mut pool: Vec<(BigUint, Vec<u8>)> = (0..nkeys)
            .map(|i| {
                let b = sha(&[b"fg-key", &seed.to_le_bytes(), &i.to_le_bytes()]).to_vec();
                (xor_distance(&self_bytes, &b), b)
            })
            .collect();
        pool.sort();
        let mut key_ids = HashMap::new();
        let keys: Vec<(RecordKey, BigUint)> = pool
            .into_iter()
            .enumerate()
            .map(|(i, (d, b))| {
                key_ids.insert(b.clone(), i as u32);
                (RecordKey::from(b), d)
            })
            .collect();
        World {
            _root: root,
            base_rt: Some(base),
            lane: tokio::runtime::Builder::new_current_thread().enable_all().build().expect("lane"),
            driver: Some(driver),
            network: Some(network),
            events: Some(events),
            self_bytes,
            max,
            keys,
            key_ids,
            holder_ids,
            hashes: HashMap::new(),
            notes: VecDeque::new(),
            history: vec![],
            other_events: 0,
            unexpected_cmds: 0,
            bounded: false,
        }
    }

    fn d(&self, k: u32) -> BigUint {
        self.keys.get(k as usize).map(|x| x.1.clone()).unwrap_or_default()
    }
    fn kid(&self, k: &RecordKey) -> u32 {
        self.key_ids.get(&k.to_vec()).copied().unwrap_or(9999)
    }
    fn type_id(&self, t: &RecordType) -> u32 {
        match t {
            RecordType::Chunk => 0,
            RecordType::Scratchpad => 1,
            RecordType::NonChunk(x) => self.hashes.get(x).map(|v| (*v + 2) as u32).unwrap_or(9999),
        }
    }
    fn learn(&mut self, v: u64) -> Vec<u8> {
        let b = value_bytes(v);
        self.hashes.entry(XorName::from_content(&b)).or_insert(v);
        b
    }

    fn snapshot(&mut self) -> Snapshot {
        let (tbf, ogf, frange, ffar, listed, sfar, srange) = {
            let d = self.driver.as_mut().expect("driver");
            let (tbf, ogf) = hook::replication_fetcher_queues(d);
            let (frange, ffar) = hook::replication_fetcher_bounds(d);
            let store = rs::node_store_mut(d).expect("store");
            (tbf, ogf, frange, ffar, rs::record_addresses_ref(store), rs::get_farthest(store), rs::get_responsible_distance_range(store))
        };
        let conv = |v: Vec<hook::FetcherEntry>, w: &World| -> Vec<E> {
            let mut r: Vec<E> = v
                .iter()
                .map(|(k, t, h, _)| E { k: w.kid(k), t: w.type_id(t), h: w.holder_ids.get(h).copied().unwrap_or(9999) })
                .collect();
            r.sort();
            r
        };
        let big = |u: ant_evm::U256| BigUint::from_bytes_be(&u.to_be_bytes::<32>());
        Snapshot {
            tbf: conv(tbf, self),
            ogf: conv(ogf, self),
            frange: frange.map(big),
            ffar: ffar.map(|d| {
                let s = format!("{d:?}");
                s.trim_start_matches("Distance(").trim_end_matches(')').parse::<BigUint>().unwrap_or_default()
            }),
            idx: listed.iter().map(|(k, (_a, t))| (self.kid(k), self.type_id(t))).collect(),
            sfar: sfar.map(|k| self.kid(&k)),
            srange: srange.map(big),
        }
    }

    /// run the lane until nothing is alive; collect events and the commands the store sent to the driver
    fn pump(&mut self) -> (Vec<Vec<(u32, u32)>>, Vec<BTreeSet<u32>>) {
        for _ in 0..10_000 {
            if self.lane.metrics().num_alive_tasks() == 0 {
                break;
            }
            self.lane.block_on(async { tokio::task::yield_now().await });
        }
        let mut emitted = vec![];
        let mut failed = vec![];
        if let Some(ev) = self.events.as_mut() {
            while let Ok(e) = ev.try_recv() {
                match e {
                    NetworkEvent::KeysToFetchForReplication(l) => emitted.push(l),
                    NetworkEvent::FailedToFetchHolders(s) => failed.push(s),
                    _ => self.other_events += 1,
                }
            }
        }
        let emitted = emitted
            .into_iter()
            .map(|l| l.iter().map(|(p, k)| (self.holder_ids.get(p).copied().unwrap_or(9999), self.kid(k))).collect())
            .collect();
        let failed = failed.into_iter().map(|s| s.iter().map(|p| self.holder_ids.get(p).copied().unwrap_or(9999)).collect()).collect();
        if let Some(d) = self.driver.as_mut() {
            while let Some(c) = dhook::try_recv_local_cmd(d) {
                match c {
                    LocalSwarmCmd::AddLocalRecordAsStored { .. } => self.notes.push_back(c),
                    _ => self.unexpected_cmds += 1,
                }
            }
        }
        (emitted, failed)
    }

    fn handle(&mut self, cmd: LocalSwarmCmd) -> Result<Result<(), NetworkError>, ()> {
        let _g = self.lane.enter();
        let d = self.driver.as_mut().expect("driver");
        catch_unwind(AssertUnwindSafe(|| hook::handle_local_cmd(d, cmd))).map_err(|_| ())
    }
}

fn join(v: Vec<String>) -> String {
    if v.is_empty() {
        "-".into()
    } else {
        v.join(",")
    }
}

fn opt(b: &Option<BigUint>) -> String {
    b.as_ref().map(|x| x.to_string()).unwrap_or_else(|| "none".into())
}

fn parse_list(s: &str) -> Option<Vec<(u32, u32)>> {
    if s == "-" {
        return Some(vec![]);
    }
    s.split(',')
        .map(|p| {
            let mut it = p.split(':');
            let k = it.next()?.parse().ok()?;
            let t = it.next()?.parse().ok()?;
            if it.next().is_some() {
                return None;
            }
            Some((k, t))
        })
        .collect()
}

fn hist(w: &World, l: &str) -> String {
    let mut h = w.history.clone();
    h.push(l.to_string());
    h.join(" ; ")
}

enum Call {
    Put { k: u32, v: u64 },
    Advert { h: u32, list: Vec<(u32, u32)> },
    Early { k: u32, t: u32 },
    Ack,
    Settle,
    RmFailed { k: u32 },
    Range(BigUint),
    Cleanup,
}

/// executes one (proto-)op line on the real code; returns the full op line and the canonical output line
fn exec(w: &mut Option<World>, line: &str, out: &mut Out) -> (String, String) {
    let ws: Vec<&str> = line.split_whitespace().collect();
    let bad = |l: &str| (l.to_string(), "bad-op".to_string());
    if ws.is_empty() {
        return bad(line);
    }
    let num = |i: usize| ws.get(i).and_then(|s| if s.len() <= 6 { s.parse::<u32>().ok() } else { None });
    if ws[0] == "new" {
        let (Some(seed), Some(max), Some(cache), Some(nkeys)) = (num(1), num(2), num(3), num(4)) else { return bad(line) };
        if max > 64 || cache == 0 || cache > 64 || nkeys == 0 || nkeys > 64 {
            return bad(line);
        }
        *w = None;
        let mut nw = World::new(seed as u64, max as usize, cache as usize, nkeys);
        let l = format!("new {seed} {max} {cache} {nkeys}");
        nw.history.push(l.clone());
        *w = Some(nw);
        return (l, "ok".into());
    }
    let Some(w) = w.as_mut() else { return bad(line) };
    let nkeys = w.keys.len() as u32;
    let key_ok = |k: u32| k < nkeys;
    let (proto, call) = match ws[0] {
        "key" => {
            let Some(k) = num(1) else { return bad(line) };
            if !key_ok(k) {
                return bad(line);
            }
            let l = format!("key {k} {} {} {}", w.d(k), common::hex(w.keys[k as usize].0.as_ref()), common::hex(&w.self_bytes));
            w.history.push(l.clone());
            return (l, "ok".into());
        }
        "put" => {
            let (Some(k), Some(v)) = (num(1), num(2)) else { return bad(line) };
            if !key_ok(k) {
                return bad(line);
            }
            (format!("put {k} {v}"), Call::Put { k, v: v as u64 })
        }
        "advert" => {
            let (Some(h), Some(list)) = (num(1), ws.get(2).and_then(|s| parse_list(s))) else { return bad(line) };
            if h >= N_HOLDERS || list.iter().any(|(k, t)| !key_ok(*k) || *t > 100_000) {
                return bad(line);
            }
            (format!("advert {h} {}", ws[2]), Call::Advert { h, list })
        }
        "early" => {
            let (Some(k), Some(t)) = (num(1), num(2)) else { return bad(line) };
            if !key_ok(k) || t > 100_000 {
                return bad(line);
            }
            (format!("early {k} {t}"), Call::Early { k, t })
        }
        "ack" => ("ack".to_string(), Call::Ack),
        "settle" => ("settle".to_string(), Call::Settle),
        "rmfailed" => {
            let Some(k) = num(1) else { return bad(line) };
            if !key_ok(k) {
                return bad(line);
            }
            (format!("rmfailed {k}"), Call::RmFailed { k })
        }
        "range" => {
            let Some(r) = ws.get(1).and_then(|s| s.parse::<BigUint>().ok()) else { return bad(line) };
            if r.bits() > 256 {
                return bad(line);
            }
            (format!("range {r}"), Call::Range(r))
        }
        "cleanup" => ("cleanup".to_string(), Call::Cleanup),
        _ => return bad(line),
    };
    let (full, res) = call_op(w, proto, call, out);
    w.history.push(full.clone());
    (full, res)
}

fn call_op(w: &mut World, proto: String, call: Call, out: &mut Out) -> (String, String) {
    // make every record type that can show up in a dump resolvable
    match &call {
        Call::Put { v, .. } => {
            w.learn(*v);
        }
        Call::Advert { list, .. } => {
            for (_, t) in list {
                if *t >= 2 {
                    w.learn((*t - 2) as u64);
                }
            }
        }
        Call::Early { t, .. } => {
            if *t >= 2 {
                w.learn((*t - 2) as u64);
            }
        }
        _ => {}
    }
    let before = w.snapshot();
    let mut res = "ok".to_string();
    let mut panicked = false;
    let mut carries_witness = false;
    match &call {
        Call::Put { k, v } => {
            carries_witness = true;
            let rec = Record { key: w.keys[*k as usize].0.clone(), value: value_bytes(*v), publisher: None, expires: None };
            match w.handle(LocalSwarmCmd::PutLocalRecord { record: rec }) {
                Err(()) => panicked = true,
                Ok(Ok(())) => {}
                Ok(Err(NetworkError::InCorrectRecordHeader)) => res = "badheader".into(),
                Ok(Err(NetworkError::KademliaStoreError(libp2p::kad::store::Error::MaxRecords))) => res = "max".into(),
                Ok(Err(e)) => res = format!("err:{e:?}").replace(' ', "_"),
            }
        }
        Call::Advert { h, list } => {
            carries_witness = true;
            let incoming: Vec<(NetworkAddress, RecordType)> =
                list.iter().map(|(k, t)| (NetworkAddress::from_record_key(&w.keys[*k as usize].0), type_from(*t))).collect();
            let sender = NetworkAddress::from_peer(holder_peer(*h));
            let _g = w.lane.enter();
            let d = w.driver.as_mut().expect("driver");
            if catch_unwind(AssertUnwindSafe(|| hook::request_response::add_keys_to_replication_fetcher(d, sender, incoming))).is_err() {
                panicked = true;
            }
        }
        Call::Early { k, t } => {
            carries_witness = true;
            let key = w.keys[*k as usize].0.clone();
            match w.handle(LocalSwarmCmd::FetchCompleted((key, type_from(*t)))) {
                Err(()) => panicked = true,
                Ok(Ok(())) => {}
                Ok(Err(e)) => res = format!("err:{e:?}").replace(' ', "_"),
            }
        }
        Call::Ack | Call::Settle => {
            if w.notes.is_empty() && matches!(call, Call::Ack) {
                res = "no-note".into();
            }
            let n = if matches!(call, Call::Ack) { 1 } else { w.notes.len() };
            for _ in 0..n {
                let Some(c) = w.notes.pop_front() else { break };
                match w.handle(c) {
                    Err(()) => panicked = true,
                    Ok(Ok(())) => {}
                    Ok(Err(e)) => res = format!("err:{e:?}").replace(' ', "_"),
                }
            }
        }
        Call::RmFailed { k } => {
            let key = w.keys[*k as usize].0.clone();
            match w.handle(LocalSwarmCmd::RemoveFailedLocalRecord { key }) {
                Err(()) => panicked = true,
                Ok(Ok(())) => {}
                Ok(Err(e)) => res = format!("err:{e:?}").replace(' ', "_"),
            }
        }
        Call::Range(r) => {
            let u = ant_evm::U256::from_str_radix(&r.to_string(), 10).expect("u256");
            hook::set_distance_range(w.driver.as_mut().expect("driver"), u);
        }
        Call::Cleanup => match w.handle(LocalSwarmCmd::TriggerIrrelevantRecordCleanup) {
            Err(()) => panicked = true,
            Ok(Ok(())) => {}
            Ok(Err(e)) => res = format!("err:{e:?}").replace(' ', "_"),
        },
    }
    if panicked {
        let l = if carries_witness { format!("{proto} -") } else { proto };
        out.oracle_fail("no_panic", &hist(w, &l), "a handler panicked");
        return (l, "panic".into());
    }
    let (emitted, failed) = w.pump();
    let after = w.snapshot();

    // record type of each emitted (holder, key): a fresh in-flight entry, else what was queued for that holder
    let before_ogf: BTreeSet<&E> = before.ogf.iter().collect();
    let mut fresh: Vec<&E> = after.ogf.iter().filter(|e| !before_ogf.contains(e)).collect();
    let mut emit: Vec<(u32, u32, u32)> = vec![];
    for (h, k) in emitted.iter().flatten() {
        let free = |e: &&E, emit: &Vec<(u32, u32, u32)>| (e.h, e.k) == (*h, *k) && !emit.contains(&(*h, *k, e.t));
        let left_queue = |e: &&E| before.tbf.contains(e) && !after.tbf.contains(e);
        let t = if let Some(p) = fresh.iter().position(|e| (e.h, e.k) == (*h, *k)) {
            fresh.remove(p).t
        } else if let Some(e) = after.ogf.iter().find(|e| free(e, &emit) && left_queue(e)) {
            e.t
        } else if let Some(e) = after.ogf.iter().find(|e| free(e, &emit)) {
            e.t
        } else if let Some(e) = before.tbf.iter().find(|e| free(e, &emit) && left_queue(e)) {
            e.t
        } else if let Some(e) = before.tbf.iter().find(|e| free(e, &emit)) {
            e.t
        } else {
            9999
        };
        emit.push((*h, *k, t));
    }
    let witness = join(emit.iter().map(|(h, k, t)| format!("{h}:{k}:{t}")).collect());
    let l = if carries_witness { format!("{proto} {witness}") } else { proto };
    let hs = hist(w, &l);

    // ---------------- model-independent oracle ----------------
    let far_held: Option<BigUint> = after.idx.keys().map(|k| w.d(*k)).max();
    let queued: Vec<&E> = after.tbf.iter().chain(after.ogf.iter()).collect();
    let refused = res == "max";
    if refused {
        out.count("put:refused");
        // (A) after a refusal nothing emitted, queued or in flight is farther than the farthest held record
        match &far_held {
            None => out.oracle_fail("full_node_fetches_nothing_farther", &hs, "put_verified refused a record although nothing is held"),
            Some(f) => {
                if after.idx.len() < w.max {
                    out.oracle_fail("full_node_fetches_nothing_farther", &hs, &format!("refused with {} records held, capacity {}", after.idx.len(), w.max));
                }
                for (h, k, _) in &emit {
                    if &w.d(*k) > f {
                        out.oracle_fail("full_node_fetches_nothing_farther", &hs, &format!("the handler of a refused put sent up a fetch of key {k} from holder {h}, farther than the farthest held record"));
                    }
                }
                for e in &queued {
                    if &w.d(e.k) > f {
                        out.oracle_fail("full_node_fetches_nothing_farther", &hs, &format!("key {} type {} is queued or in flight after a refused put although farther than the farthest held record", e.k, e.t));
                    }
                }
                if emit.iter().any(|(_, k, _)| &w.d(*k) <= f) {
                    out.count("put:refused-and-emitted-closer");
                }
                if before.tbf.iter().chain(before.ogf.iter()).any(|e| &w.d(e.k) > f) {
                    out.count("put:refused-pruned-farther");
                }
            }
        }
        if before.idx != after.idx {
            out.oracle_fail("full_node_fetches_nothing_farther", &hs, "a refused put changed the held set");
        }
    }
    // every fetch sent up is tracked in flight
    for (h, k, _) in &emit {
        if !after.ogf.iter().any(|e| (e.h, e.k) == (*h, *k)) {
            out.oracle_fail("emitted_is_inflight", &hs, &format!("fetch of key {k} from holder {h} sent up but not in flight"));
        }
    }
    // the bound changes only by a refusal, is never cleared, never grows, and after a refusal is within the farthest held
    if after.ffar != before.ffar && !refused {
        out.oracle_fail("bound_set_only_by_refusal", &hs, &format!("farthest acceptable distance went from {} to {} without a refused put", opt(&before.ffar), opt(&after.ffar)));
    }
    if let Some(b) = &before.ffar {
        if after.ffar.as_ref().map(|a| a > b).unwrap_or(true) {
            out.oracle_fail("bound_never_widens", &hs, &format!("farthest acceptable distance went from {b} to {}", opt(&after.ffar)));
        }
    }
    if refused {
        if let (Some(f), a) = (&far_held, &after.ffar) {
            if a.as_ref().map(|a| a > f).unwrap_or(true) {
                out.oracle_fail("full_node_fetches_nothing_farther", &hs, &format!("after a refused put the farthest acceptable distance is {}, the farthest held record is at {f}", opt(a)));
            }
        }
    }
    // (B) history level, under the hypothesis of the `_partial` theorem: since the last refusal no held key was lost
    if before.idx.keys().any(|k| !after.idx.contains_key(k)) {
        w.bounded = false;
        out.count("held:lost-a-key");
    }
    if refused {
        w.bounded = true;
    }
    if w.bounded {
        if let Some(f) = &far_held {
            for e in &queued {
                if &w.d(e.k) > f {
                    out.oracle_fail("full_history_partial", &hs, &format!("key {} type {} queued or in flight, farther than the farthest held record, although no held record was lost since the last refusal", e.k, e.t));
                }
            }
        }
    } else if after.idx.len() >= w.max && w.max > 0 {
        if let Some(f) = &far_held {
            if queued.iter().any(|e| &w.d(e.k) > f) {
                // the known finding: a node at capacity with a farther fetch pending (no refusal yet, or an eviction since)
                out.count("known:at-capacity-with-farther-fetch");
            }
        }
    }
    if !failed.is_empty() {
        out.count("event:failed-holders");
    }
    out.count(&format!("op:{}", l.split(' ').next().unwrap_or("")));
    if !emit.is_empty() {
        out.count("emitted");
    }
    if after.ogf.len() >= 20 {
        out.count("cap:reached");
    }

    let fail = join(failed.iter().flat_map(|s: &BTreeSet<u32>| s.iter().map(|h| h.to_string())).collect::<BTreeSet<_>>().into_iter().collect());
    let q = |v: &[E]| join(v.iter().map(|e| format!("{}:{}:{}", e.k, e.t, e.h)).collect());
    let o = format!(
        "res={res} emit={witness} fail={fail} tbf={} ogf={} frange={} ffar={} idx={} sfar={} srange={} notes={}",
        q(&after.tbf),
        q(&after.ogf),
        opt(&after.frange),
        opt(&after.ffar),
        join(after.idx.iter().map(|(k, t)| format!("{k}:{t}")).collect()),
        after.sfar.map(|k| k.to_string()).unwrap_or_else(|| "none".into()),
        opt(&after.srange),
        w.notes.len()
    );
    (l, o)
}

// ---------------------------------------------------------------- generator

/// a value whose header gives key k its "natural" record type, `j` distinguishes contents
fn natural_value(k: u32, j: u64) -> u64 {
    match k % 4 {
        3 => 21 * (k as u64 * 4 + j % 4) + if j % 2 == 0 { 1 } else { 4 }, // register / transaction: NonChunk(hash)
        2 if k % 8 == 2 => 21 * (k as u64 * 4 + j % 4) + 7,                  // scratchpad
        _ => 3 * (k as u64 * 8 + j % 8) * 7,                                 // chunk (v % 3 = 0, never 2/5/8)
    }
}

/// the type code the handler derives from value v (None: refused header)
fn value_type(v: u64) -> Option<u32> {
    if val_len(v) < 3 {
        return None;
    }
    match v % 3 {
        0 => Some(0),
        1 => match [2u8, 3, 5, 0, 4, 6, 7][((v / 3) % 7) as usize] {
            2 | 3 => Some((v + 2) as u32),
            5 => Some(1),
            _ => None,
        },
        _ => None,
    }
}

fn gen_history(rng: &mut Rng, hno: u64, w: &mut Option<World>, sink: &mut dyn FnMut(&mut Option<World>, String)) {
    let big = rng.chance(1, 4);
    let max = rng.range(1, 4);
    let nkeys: u32 = if big { rng.range(max + 24, max + 30) as u32 } else { rng.range(max + 3, max + 8) as u32 };
    let cache = rng.range(1, 3);
    sink(w, format!("new {} {max} {cache} {nkeys}", hno % 5));
    for k in 0..nkeys {
        sink(w, format!("key {k}"));
    }
    let adv_type = |rng: &mut Rng, k: u32| -> u32 {
        let v = natural_value(k, rng.below(2));
        value_type(v).unwrap_or(0)
    };
    // fill the store: mostly up to capacity with closer keys, sometimes short of it, sometimes with farther keys
    let fill = if rng.chance(1, 6) { rng.below(max + 1) } else { max };
    let mut pool: Vec<u32> = (0..nkeys).collect();
    if rng.chance(2, 3) {
        pool.truncate((max as usize + 2).min(nkeys as usize));
    }
    rng.shuffle(&mut pool);
    for k in pool.iter().take(fill as usize) {
        sink(w, format!("put {k} {}", natural_value(*k, 0)));
        if rng.chance(4, 5) {
            sink(w, "settle".to_string());
        }
    }
    if rng.chance(5, 6) {
        sink(w, "settle".to_string());
    }
    let len = if big { rng.range(8, 20) } else { rng.range(8, 30) };
    for _ in 0..len {
        let (tbf, ogf, held): (Vec<E>, Vec<E>, Vec<u32>) = match w.as_mut() {
            Some(w) => {
                let s = w.snapshot();
                (s.tbf, s.ogf, s.idx.keys().copied().collect())
            }
            None => (vec![], vec![], vec![]),
        };
        let roll = rng.below(100);
        let line = if roll < 36 {
            let h = rng.below(N_HOLDERS as u64) as u32;
            let n = match rng.below(10) {
                0..=2 => 1,
                3 => 0,
                4..=5 => 2,
                _ => {
                    if big {
                        rng.range(20, nkeys as u64) as usize
                    } else {
                        rng.range(2, 6) as usize
                    }
                }
            };
            let mut v = vec![];
            for _ in 0..n {
                // mostly keys beyond the held ones
                let k = if rng.chance(3, 4) { rng.range((max as u64).min(nkeys as u64 - 1), nkeys as u64 - 1) as u32 } else { rng.below(nkeys as u64) as u32 };
                v.push(format!("{k}:{}", adv_type(rng, k)));
            }
            // a key already in flight from another holder gets queued: re-advertise some
            if !ogf.is_empty() && rng.chance(1, 2) {
                let e = rng.pick(&ogf).clone();
                v.push(format!("{}:{}", e.k, e.t));
                if v.len() == 1 {
                    let k = rng.below(nkeys as u64) as u32;
                    v.push(format!("{k}:{}", adv_type(rng, k)));
                }
            }
            format!("advert {h} {}", join(v))
        } else if roll < 66 {
            // a fetched record arrives (mostly), as advertised or as another version; or an unrelated upload
            if !ogf.is_empty() && rng.chance(5, 6) {
                let e = rng.pick(&ogf).clone();
                let v = if rng.chance(3, 4) {
                    // a value whose derived type is the advertised one
                    if e.t >= 2 { (e.t - 2) as u64 } else if e.t == 1 { 21 * (e.k as u64 * 4 + rng.below(4)) + 7 } else { natural_value(e.k - e.k % 4, rng.below(8)) }
                } else {
                    match rng.below(3) {
                        0 => 21 * (e.k as u64 * 4 + rng.below(4)) + 7,
                        1 => 21 * (e.k as u64 * 4 + rng.below(4)) + 1,
                        _ => 3 * (e.k as u64 * 8 + rng.below(8)) * 7,
                    }
                };
                format!("put {} {v}", e.k)
            } else if rng.chance(1, 12) {
                format!("put {} {}", rng.below(nkeys as u64), 3 * rng.below(50) + 2)
            } else {
                let k = rng.below(nkeys as u64) as u32;
                format!("put {k} {}", natural_value(k, rng.below(8)))
            }
        } else if roll < 72 {
            if !ogf.is_empty() && rng.chance(4, 5) {
                let e = rng.pick(&ogf).clone();
                format!("early {} {}", e.k, e.t)
            } else if !tbf.is_empty() {
                let e = rng.pick(&tbf).clone();
                format!("early {} {}", e.k, e.t)
            } else {
                format!("early {} 0", rng.below(nkeys as u64))
            }
        } else if roll < 84 {
            "settle".to_string()
        } else if roll < 89 {
            "ack".to_string()
        } else if roll < 93 {
            if !held.is_empty() && rng.chance(4, 5) {
                format!("rmfailed {}", rng.pick(&held))
            } else {
                format!("rmfailed {}", rng.below(nkeys as u64))
            }
        } else if roll < 98 {
            let k = rng.below(nkeys as u64) as u32;
            let d = w.as_ref().map(|w| w.d(k)).unwrap_or_default();
            let one = BigUint::from(1u32);
            let r = match rng.below(4) {
                0 => d + &one,
                1 => {
                    if d > BigUint::default() {
                        d - &one
                    } else {
                        d
                    }
                }
                _ => d,
            };
            format!("range {r}")
        } else {
            "cleanup".to_string()
        };
        sink(w, line);
    }
}

/// hand-written corner histories (proto-op lines). Key ids are distance ranks.
fn corpus() -> Vec<String> {
    let mut v: Vec<String> = vec![];
    let mut hist = |new: &str, nkeys: u32, ops: &[&str]| {
        v.push(format!("{new} {nkeys}"));
        for k in 0..nkeys {
            v.push(format!("key {k}"));
        }
        v.extend(ops.iter().map(|s| s.to_string()));
    };
    // records 0 and 1 held at capacity 2; keys 2, 4, 5 are being fetched; the arrival of 4 is refused: 4 and 5 go
    hist("new 1 2 3", 8, &["put 0 0", "settle", "put 1 21", "settle", "advert 0 2:0,4:0,5:0", "put 4 84"]);
    // (a) key 4 in flight from holder 1 and queued for holder 2; it arrives as another version (scratchpad) and is refused
    hist("new 1 2 3", 8, &["put 0 0", "settle", "put 1 21", "settle", "advert 1 4:0", "advert 2 4:0,5:0", "put 4 7"]);
    // (b) 22 farther keys advertised at once: 20 in flight, 2 queued; the first arrival is refused and frees a slot
    let list: String = (2..24).map(|k| format!("{k}:0")).collect::<Vec<_>>().join(",");
    let adv = format!("advert 1 {list}");
    hist("new 2 2 3", 26, &["put 0 0", "settle", "put 1 21", "settle", &adv, "put 2 42"]);
    // the known finding: full node, nothing refused yet, a farther key is fetched; its arrival is refused and sets the bound
    hist("new 1 1 2", 4, &["put 0 0", "settle", "advert 0 2:0", "put 2 336", "advert 1 3:0"]);
    // … and after an eviction the bound lags behind: 0,2 held, 3 refused (bound = d(2)), 1 fetched, then 1 stored evicts 2
    hist("new 3 2 2", 6, &["put 0 0", "settle", "put 2 336", "settle", "put 3 21", "advert 0 1:0", "put 1 168", "settle", "advert 1 2:0", "put 2 336"]);
    // unacknowledged burst at capacity, then refusals; removal of the farthest; bound outlives fullness
    hist("new 4 2 1", 7, &["put 0 0", "put 1 21", "put 2 42", "settle", "put 5 105", "rmfailed 2", "advert 0 4:0", "advert 0 1:0,3:0", "put 3 63", "settle"]);
    // a bad header and a payment kind never reach the store or the fetcher
    hist("new 0 1 1", 4, &["advert 0 1:0", "put 1 2", "put 1 10", "put 1 105", "settle"]);
    v
}

fn main() {
    let args = &common::parse_args();
    let mut out = Out::new(&args.out);
    let _ = SCRATCH.set(std::fs::canonicalize(&args.out).unwrap_or(args.out.clone()).join("scratch"));
    std::panic::set_hook(Box::new(|_| {}));
    let mut world: Option<World> = None;
    let nops = std::cell::Cell::new(0u64);
    {
        let mut run = |w: &mut Option<World>, proto: String| {
            nops.set(nops.get() + 1);
            let (l, r) = exec(w, &proto, &mut out);
            let op = l.split(' ').next().unwrap_or("").to_string();
            if matches!(op.as_str(), "put" | "advert" | "early" | "rmfailed" | "ack" | "settle") {
                out.nontrivial_case(&format!("{l}|{r}"));
            }
            out.line(l, r);
        };
        if let Some(p) = &args.replay {
            for l in common::read_lines(p) {
                // derived parts (distances, choice witnesses) are regenerated
                let ws: Vec<&str> = l.split_whitespace().collect();
                let keep = match ws.first().copied() {
                    Some("advert") | Some("put") | Some("early") => 3,
                    Some("key") => 2,
                    _ => ws.len(),
                };
                run(&mut world, ws[..keep.min(ws.len())].join(" "));
            }
        } else {
            for l in corpus() {
                run(&mut world, l);
            }
            let mut rng = Rng::new(args.seed);
            let mut hno = 0u64;
            let base = nops.get();
            while nops.get() - base < args.n {
                gen_history(&mut rng, hno, &mut world, &mut run);
                hno += 1;
            }
        }
    }
    if let Some(w) = world.as_ref() {
        if w.unexpected_cmds > 0 {
            out.notes.push(format!("{} commands other than AddLocalRecordAsStored arrived from the store", w.unexpected_cmds));
        }
    }
    drop(world);
    if let Some(s) = SCRATCH.get() {
        let _ = std::fs::remove_dir_all(s);
    }
    out.finish();
}
