//! C13 (use site): `LocalSwarmCmd::QuoteVerification` → `SwarmDriver::verify_peer_quote` on a real `SwarmDriver`
//! (from `NetworkBuilder::build_client`, never run), driven through the hook `handle_local_cmd`; what the driver
//! remembers is read back through the read-only hooks `quotes_history` / `node_issues`.
//!
//! Line protocol (inputs only; peers are small integers, timestamps are offsets in ns from the harness's clock
//! reading at start, so every quote of a run has a fixed absolute timestamp):
//!   reset                                          forget all peers (fresh peer ids from here on)
//!   deliver (<peer> <offset ns> <live> <paid>)+    one QuoteVerification batch, in this order
//! Output of deliver, per distinct peer of the batch in order of first appearance:
//!   p<peer>:hist=<offset>/<live>/<paid>|none,flagged=<bool>      flagged = a BadQuoting issue is recorded
//! The code reads the clock in `historical_verify` (elapsed of both quotes): offsets are whole seconds (same
//! sub-second phase ⇒ the difference of the two whole-second ages is exact whatever the clock says); where a
//! sub-second offset is used the uptime claim is kept ≥ 3 s away from the LIVE_TIME_MARGIN edge.
use ant_evm::PaymentQuote;
use ant_networking::verif::{event as hook, LocalSwarmCmd};
use ant_networking::{NetworkBuilder, SwarmDriver};
use common::{Out, Rng};
use libp2p::identity::Keypair;
use libp2p::PeerId;
use std::collections::HashMap;
use std::panic::{catch_unwind, AssertUnwindSafe};
use std::time::{Duration, SystemTime};

const S: i128 = 1_000_000_000;

struct H {
    rt: tokio::runtime::Runtime,
    driver: SwarmDriver,
    base: SystemTime,
    epoch: u64,
    peers: HashMap<(u64, u64), PeerId>,
    /// per peer of the current epoch: quotes delivered so far (offset, live, paid)
    delivered: HashMap<u64, Vec<(i128, u64, u64)>>,
    history: Vec<String>,
}

fn at(base: SystemTime, off: i128) -> SystemTime {
    if off >= 0 {
        base + Duration::from_nanos(off as u64)
    } else {
        base - Duration::from_nanos((-off) as u64)
    }
}

impl H {
    fn new() -> Self {
        let rt = tokio::runtime::Builder::new_current_thread().enable_all().build().expect("rt");
        let driver = {
            let _g = rt.enter();
            let (network, events, driver) = NetworkBuilder::new(Keypair::generate_ed25519(), false).build_client().expect("build_client");
            std::mem::forget(network);
            std::mem::forget(events);
            driver
        };
        H { rt, driver, base: SystemTime::now(), epoch: 0, peers: HashMap::new(), delivered: HashMap::new(), history: vec![] }
    }
    fn peer(&mut self, p: u64) -> PeerId {
        *self.peers.entry((self.epoch, p)).or_insert_with(PeerId::random)
    }
    fn show(&mut self, p: u64) -> String {
        let id = self.peer(p);
        let hist = hook::quotes_history(&self.driver).into_iter().find(|(q, _)| *q == id).map(|(_, q)| q);
        let h = match hist {
            None => "none".to_string(),
            Some(q) => {
                let off: i128 = match q.timestamp.duration_since(self.base) {
                    Ok(d) => d.as_nanos() as i128,
                    Err(e) => -(e.duration().as_nanos() as i128),
                };
                format!("{off}/{}/{}", q.quoting_metrics.live_time, q.quoting_metrics.received_payment_count)
            }
        };
        let flagged = hook::node_issues(&self.driver).into_iter().any(|(q, issues, _)| q == id && issues.iter().any(|i| i == "BadQuoting"));
        format!("p{p}:hist={h},flagged={flagged}")
    }
    fn exec(&mut self, line: &str) -> Option<String> {
        let ws: Vec<&str> = line.split_whitespace().collect();
        match ws.as_slice() {
            ["reset"] => {
                // every history gets its own clock base: offsets are relative to it, and a history takes microseconds,
                // so a timestamp a few seconds in the future stays in the future however long the whole run takes
                // (with one base for the whole run the thorough tier, > 2 s, saw `+2 s` quotes turn into past ones)
                self.base = SystemTime::now();
                self.epoch += 1;
                self.delivered.clear();
                self.history.clear();
                self.history.push(line.to_string());
                Some("ok".into())
            }
            ["deliver", rest @ ..] if !rest.is_empty() && rest.len() % 4 == 0 => {
                let mut quotes = vec![];
                let mut order = vec![];
                let mut parsed = vec![];
                for c in rest.chunks(4) {
                    let p: u64 = c[0].parse().ok()?;
                    let off: i128 = c[1].parse().ok()?;
                    let live: u64 = c[2].parse().ok()?;
                    let paid: u64 = c[3].parse().ok()?;
                    let mut q = PaymentQuote::zero();
                    q.timestamp = at(self.base, off);
                    q.quoting_metrics.live_time = live;
                    q.quoting_metrics.received_payment_count = paid as usize;
                    quotes.push((self.peer(p), q));
                    if !order.contains(&p) {
                        order.push(p);
                    }
                    parsed.push((p, off, live, paid));
                }
                self.history.push(line.to_string());
                {
                    let _g = self.rt.enter();
                    hook::handle_local_cmd(&mut self.driver, LocalSwarmCmd::QuoteVerification { quotes }).ok()?;
                }
                for (p, off, live, paid) in parsed {
                    self.delivered.entry(p).or_default().push((off, live, paid));
                }
                let parts: Vec<String> = order.iter().map(|p| self.show(*p)).collect();
                Some(parts.join(" "))
            }
            _ => None,
        }
    }
}

/// The property on the observable behaviour, from the delivered quotes alone: per peer, as long as nothing has been
/// flagged the remembered quote is the newest delivered one; and a quote that is inconsistent with the newest quote
/// delivered before it (the later-dated of the two claims less uptime or fewer payments) leaves the peer flagged.
fn oracle(h: &H, batch_first_index: &HashMap<u64, usize>, res: &str, out: &mut Out) {
    let input = h.history.join(" ; ");
    for part in res.split_whitespace() {
        let Some((p, rest)) = part.strip_prefix('p').and_then(|r| r.split_once(':')) else { continue };
        let Ok(p) = p.parse::<u64>() else { continue };
        let flagged = rest.ends_with("flagged=true");
        let Some(qs) = h.delivered.get(&p) else { continue };
        // walk the deliveries of this peer; `first` = index of the first delivery made by the current batch
        let first = *batch_first_index.get(&p).unwrap_or(&0);
        let mut must_flag = None;
        for i in 1..qs.len() {
            let newest_before = qs[..i].iter().max_by_key(|q| q.0).unwrap();
            let unique = qs[..i].iter().filter(|q| q.0 == newest_before.0).count() == 1;
            let q = qs[i];
            if unique && q.0 != newest_before.0 {
                let (old, new) = if q.0 > newest_before.0 { (*newest_before, q) } else { (q, *newest_before) };
                if new.1 < old.1 || new.2 < old.2 {
                    must_flag = Some((old, new));
                    break;
                }
            }
        }
        let _ = first;
        match must_flag {
            Some((old, new)) if !flagged => {
                out.oracle_fail(
                    "later-quote-with-less-uptime-or-payments-flagged-at-use-site",
                    &input,
                    &format!("peer {p}: quote dated {} claims live/paid {}/{} after the quote dated {} claimed {}/{}, but no BadQuoting issue is recorded", new.0, new.1, new.2, old.0, old.1, old.2),
                );
            }
            None if !flagged => {
                // known finding K-n: only the newest quote is remembered, so a quote that reports less than some OLDER
                // delivered quote dated before it is not noticed (outside the `_partial` theorem's hypothesis): counted
                if qs.iter().any(|a| qs.iter().any(|b| a.0 < b.0 && (b.1 < a.1 || b.2 < a.2))) {
                    out.count("oracle-skipped:K-n-lesser-than-an-older-quote-unflagged");
                }
                // nothing inconsistent by sequence; if additionally nothing could be out of sync, the newest quote must be remembered
                let newest = qs.iter().max_by_key(|q| q.0).unwrap();
                let unique = qs.iter().filter(|q| q.0 == newest.0).count() == 1;
                let want = format!("hist={}/{}/{},", newest.0, newest.1, newest.2);
                if unique && !rest.starts_with(&want) {
                    out.oracle_fail("history-keeps-newest", &input, &format!("peer {p}: remembered `{rest}`, newest delivered quote is {want}"));
                }
            }
            _ => {}
        }
    }
}

// ---------------------------------------------------------------- generator

fn q(p: u64, off: i128, live: u64, paid: u64) -> String {
    format!("{p} {off} {live} {paid}")
}

fn scenario(rng: &mut Rng, v: &mut Vec<String>) {
    v.push("reset".into());
    let p = rng.range(1, 4);
    let t0 = -((rng.range(20, 5000) as i128) * S);
    let gap = rng.range(1, 600) as i128;
    let live = rng.range(20, 1000);
    let paid = rng.range(20, 1000);
    let sub = if rng.chance(1, 6) { rng.range(1, 900) as i128 } else { 0 };
    // (old, new) claims of one peer
    let old = (t0, live, paid);
    let class = rng.below(12);
    let new = match class {
        0 => (t0 + gap * S, live + rng.below(gap as u64 + 8), paid + rng.below(5)), // consistent
        1 => (t0 + gap * S, live, paid - 1 - rng.below(5)),                           // fewer payments
        2 => (t0 + gap * S, live - 1 - rng.below(5), paid + rng.below(3)),            // less uptime
        3 => (t0 + gap * S, live + gap as u64 + 10, paid),                            // exactly at the margin: fine
        4 => (t0 + gap * S, live + gap as u64 + 11, paid),                            // first value out of sync
        5 => (t0 + gap * S + sub, live + gap as u64 + 14 + rng.below(500), paid + 1), // far out of sync (sub-second offset allowed)
        6 => (t0 + gap * S + sub, live + (gap as u64).saturating_sub(3), paid + 2),   // consistent, sub-second offset
        7 => (t0, live + rng.below(3), paid + rng.below(3)),                          // equal timestamps
        8 => (t0, live.saturating_sub(rng.below(3)), paid.saturating_sub(rng.below(3))), // equal timestamps, lesser claims
        9 => (3600 * S + gap * S, live + 5, paid + 5),                                // dated in the future
        10 => (t0 + sub + 1, live, paid - 1),                                         // newer by a sub-second, fewer payments
        _ => (t0 + gap * S, live + rng.below(5), paid + rng.below(5)),
    };
    let order_swapped = rng.chance(1, 2);
    let (first, second) = if order_swapped { (new, old) } else { (old, new) };
    match rng.below(5) {
        0 => v.push(format!("deliver {} {}", q(p, first.0, first.1, first.2), q(p, second.0, second.1, second.2))), // one batch
        1 => {
            // another peer's quotes interleaved
            let o = p + 10;
            v.push(format!("deliver {} {}", q(p, first.0, first.1, first.2), q(o, second.0, second.1 + 50, second.2 + 50)));
            v.push(format!("deliver {} {}", q(o, first.0, 1, 1), q(p, second.0, second.1, second.2)));
        }
        _ => {
            v.push(format!("deliver {}", q(p, first.0, first.1, first.2)));
            v.push(format!("deliver {}", q(p, second.0, second.1, second.2)));
        }
    }
    // longer histories: more quotes in random order, mostly consistent with a linear uptime
    for _ in 0..rng.below(4) {
        let k = rng.below(700) as i128;
        let ts = t0 + k * S;
        let l = if rng.chance(1, 6) { live.saturating_sub(1 + rng.below(4)) } else { live + (k as u64).saturating_sub(rng.below(4)) };
        let c = if rng.chance(1, 6) { paid.saturating_sub(1 + rng.below(4)) } else { paid + rng.below(3) + (k as u64) / 100 };
        v.push(format!("deliver {}", q(p, ts, l, c)));
    }
}

fn main() {
    std::panic::set_hook(Box::new(|_| {}));
    let args = common::parse_args();
    let mut out = Out::new(&args.out);
    let lines: Vec<String> = if let Some(f) = &args.replay {
        common::read_lines(f)
    } else {
        let mut rng = Rng::new(args.seed);
        let mut v: Vec<String> = vec![];
        // corpus: the four arrival orders of an inconsistent pair, equal timestamps, two peers
        for (a, b) in [((-200, 10, 10), (-100, 10, 5)), ((-200, 10, 10), (-100, 4, 10)), ((-200, 10, 10), (-100, 121, 10)), ((-200, 10, 10), (-100, 120, 12))] {
            for swapped in [false, true] {
                let (x, y): ((i128, u64, u64), (i128, u64, u64)) = if swapped { (b, a) } else { (a, b) };
                v.push("reset".into());
                v.push(format!("deliver {}", q(1, x.0 * S, x.1, x.2)));
                v.push(format!("deliver {}", q(1, y.0 * S, y.1, y.2)));
            }
        }
        v.push("reset".into());
        v.push(format!("deliver {} {} {}", q(1, -300 * S, 5, 5), q(2, -300 * S, 9, 9), q(1, -100 * S, 6, 6)));
        v.push(format!("deliver {} {}", q(2, -200 * S, 8, 9), q(1, -200 * S, 5, 5)));
        // K-n: q3 reports fewer payments than the older q1, but is compared with the remembered q2 only
        v.push("reset".into());
        v.push(format!("deliver {}", q(1, -300 * S, 10, 10)));
        v.push(format!("deliver {}", q(1, -100 * S, 12, 12)));
        v.push(format!("deliver {}", q(1, -200 * S, 11, 9)));
        let mut n = 0;
        while n < args.n {
            let before = v.len();
            scenario(&mut rng, &mut v);
            n += (v.len() - before) as u64;
        }
        v
    };
    let mut h = H::new();
    for l in &lines {
        let before: HashMap<u64, usize> = h.delivered.iter().map(|(k, v)| (*k, v.len())).collect();
        let r = catch_unwind(AssertUnwindSafe(|| h.exec(l)));
        let res = match r {
            Ok(Some(s)) => s,
            Ok(None) => "bad-op".into(),
            Err(_) => {
                out.oracle_fail("no-panic", &h.history.join(" ; "), "handle_local_cmd panicked");
                "panic".into()
            }
        };
        if l.starts_with("deliver") && res != "bad-op" && res != "panic" {
            oracle(&h, &before, &res, &mut out);
            out.count(if res.contains("flagged=true") { "deliver:flagged" } else { "deliver:clean" });
        } else {
            out.count(l.split_whitespace().next().unwrap_or(""));
        }
        out.nontrivial_case(l);
        out.line(l.clone(), res);
    }
    out.notes.push("record_node_issue pushes at most one issue per 10 s per peer: `flagged` = a BadQuoting issue is recorded; every scenario uses fresh peers".into());
    out.finish();
}
