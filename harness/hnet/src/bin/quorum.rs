//! C05: quorum reads. A real `SwarmDriver` (from `NetworkBuilder::build_client`, never run) is driven through
//! the hooked `handle_network_cmd(GetNetworkRecord)` and synthetic `kad::Event::OutboundQueryProgressed` events;
//! outcomes are read from the callers' oneshot receivers. `Network::handle_split_record_error` is called through
//! the hook on real result maps (BLS-signed register ops, signed scratchpads, transactions).
//!
//! Line protocol (inputs + choice witnesses only; identities are small integers):
//!   reset                                  start a new history (all queries of the previous one must be finished)
//!   get <key> <caller> <one|majority|all|n<k>> [t=<content>] [reg] [e=<peer.peer...>]   (e = `expected_holders`)
//!                                          caller ids are consecutive from 0 within a history
//!   found <qid> <peer> <content> [k<key>]  peer 0 = `PeerRecord.peer == None` (attributed to the driver itself);
//!                                          k<key>: the record of the reply carries that key (default: the query's key);
//!                                          a reply carrying another key is dropped by accumulate_get_record_found
//!   finished|notfound|quorumfailed|timeout <qid>
//!   hangup <caller>                        the caller drops its receiver
//!   dump                                   canonical view of `pending_get_record`
//!   merge <content> <content> ...          `handle_split_record_error` on a result map holding the listed versions
//!                                          (duplicate-free), listed in ascending order of their key in the map (choice
//!                                          witness for the content hashes: when the real hashes are in the listed order the
//!                                          map is keyed by them, as production builds it, else by stand-in hashes that are);
//!                                          the key being read is the record key of the scratchpad of pad owner 0. The call
//!                                          is repeated on several independently built maps (each `HashMap` instance iterates
//!                                          in its own order): all must give the same result
//! Content tokens: x<n> (no header) | h<c|t|r|s|p><n> (header of kind chunk/transaction/register/scratchpad/
//!   ..WithPayment + undecodable body) | t<id.id...> (transactions; `3s` = the look-alike of transaction 3: same owner/parents/content/outputs, another signature) | r<base><g|b>[.op...] (signed register, good/bad
//!   owner signature, ops ascending, op ids >= 6 are signed by a stranger) | s<owner>.<counter>.<variant><g|b> (scratchpad)
//! Output: get -> `new q<n>` | `join q<n>`; events -> `<ok|dropped|chan>` + ` ; c<caller> <outcome>`*;
//!   outcome = ok <content> | split <content>=<peer.peer>,... | notenough <content> <expected> <got> | mismatch <content>
//!           | notfound | timeout | closed; merge -> none | some <content> | illegal-choice
//!   a record handed to a caller under a key other than the requested one is shown as `... key=k<n>` (ok, mismatch,
//!   notenough) resp. `<content>@k<n>=...` (split)
use ant_networking::verif::{event as hook, NetworkSwarmCmd};
use ant_networking::{GetRecordCfg, GetRecordError, NetworkBuilder, NetworkError, SwarmDriver};
use ant_protocol::storage::{
    try_deserialize_record, try_serialize_record, RecordHeader, RecordKind, Scratchpad, Transaction,
};
use ant_protocol::CLOSE_GROUP_SIZE;
use ant_registers::{Permissions, Register, RegisterCrdt, RegisterOp, SignedRegister};
use bls::{SecretKey, Signature};
use common::{Out, Rng};
use libp2p::identity::Keypair;
use libp2p::kad::{self, GetRecordOk, PeerRecord, ProgressStep, QueryId, QueryResult, QueryStats, Quorum, Record, RecordKey};
use libp2p::PeerId;
use std::collections::{BTreeMap, BTreeSet, HashMap, HashSet};
use std::num::NonZeroUsize;
use std::panic::{catch_unwind, AssertUnwindSafe};
use tokio::sync::oneshot;
use xor_name::XorName;

const N_TX: usize = 6; // transaction bases; each has a look-alike with identical signed fields and another signature
const N_BASE: usize = 3;
const N_OPS: usize = 8; // ops 6,7 are signed by a key without write permission
const STRANGER_FROM: usize = 6;
const N_PAD_OWNER: usize = 3;

type GetResult = std::result::Result<Record, GetRecordError>;

// ---------------------------------------------------------------------------------------------------------
// content universe
// ---------------------------------------------------------------------------------------------------------

#[derive(Clone, Debug, PartialEq)]
enum Tok {
    Junk(u64),
    Hdr(char, u64),
    Txs(Vec<usize>),
    Reg { base: usize, good: bool, ops: Vec<usize> },
    Pad { owner: usize, counter: u64, variant: u64, good: bool },
}

fn num_cls(s: &str) -> Option<(u64, bool)> {
    let (n, c) = s.split_at(s.len().checked_sub(1)?);
    let good = match c {
        "g" => true,
        "b" => false,
        _ => return None,
    };
    Some((dec(n)?, good))
}

fn dec(s: &str) -> Option<u64> {
    if s.is_empty() || !s.bytes().all(|b| b.is_ascii_digit()) || s.len() > 9 {
        return None;
    }
    s.parse().ok()
}

fn parse_tok(s: &str) -> Option<Tok> {
    let (h, r) = s.split_at(1.min(s.len()));
    match h {
        "x" => Some(Tok::Junk(dec(r)?)),
        "h" => {
            let k = r.chars().next()?;
            if !"ctrsp".contains(k) {
                return None;
            }
            Some(Tok::Hdr(k, dec(&r[1..])?))
        }
        "t" => {
            if r.is_empty() {
                return Some(Tok::Txs(vec![]));
            }
            // `b` = transaction 2b, `bs` = its look-alike 2b+1 (same owner/parents/content/outputs, other signature)
            let ids: Option<Vec<usize>> = r
                .split('.')
                .map(|p| match p.strip_suffix('s') {
                    Some(b) => dec(b).map(|v| 2 * v as usize + 1),
                    None => dec(p).map(|v| 2 * v as usize),
                })
                .collect();
            let ids = ids?;
            if ids.iter().any(|i| *i >= 2 * N_TX) {
                return None;
            }
            Some(Tok::Txs(ids))
        }
        "r" => {
            let mut parts = r.split('.');
            let (base, good) = num_cls(parts.next()?)?;
            let ops: Option<Vec<usize>> = parts.map(|p| dec(p).map(|v| v as usize)).collect();
            let ops = ops?;
            if base as usize >= N_BASE || ops.iter().any(|o| *o >= N_OPS) || ops.windows(2).any(|w| w[0] >= w[1]) {
                return None;
            }
            Some(Tok::Reg { base: base as usize, good, ops })
        }
        "s" => {
            let parts: Vec<&str> = r.split('.').collect();
            if parts.len() != 3 {
                return None;
            }
            let owner = dec(parts[0])? as usize;
            let counter = dec(parts[1])?;
            let (variant, good) = num_cls(parts[2])?;
            if owner >= N_PAD_OWNER || counter == 0 || counter > 9 || variant > 9 {
                return None;
            }
            Some(Tok::Pad { owner, counter, variant, good })
        }
        _ => None,
    }
}

fn tx_dotted(ids: &[usize]) -> String {
    ids.iter().map(|i| format!("{}{}", i / 2, if i % 2 == 1 { "s" } else { "" })).collect::<Vec<_>>().join(".")
}

fn dotted<T: ToString>(xs: &[T]) -> String {
    xs.iter().map(|x| x.to_string()).collect::<Vec<_>>().join(".")
}

struct Base {
    register: Register,
    good_sig: Signature,
    bad_sig: Signature,
    ops: Vec<RegisterOp>,
}

struct Universe {
    stranger: SecretKey,
    txs: Vec<Transaction>,
    bases: Vec<Base>,
    pad_owners: Vec<SecretKey>,
    cache: HashMap<String, Vec<u8>>,
    rev: HashMap<Vec<u8>, String>,
    by_hash: HashMap<XorName, String>,
}

impl Universe {
    fn new() -> Self {
        let stranger = SecretKey::random();
        let mut txs: Vec<Transaction> = vec![];
        for i in 0..N_TX {
            let sk = SecretKey::random();
            let genuine = Transaction::new(sk.public_key(), vec![], [i as u8; 32], vec![], &sk);
            // the look-alike a misbehaving holder could serve: same signed fields, signature by another key
            let forged = Transaction::new_with_signature(sk.public_key(), vec![], [i as u8; 32], vec![], stranger.sign(genuine.bytes_for_signature()));
            txs.push(genuine);
            txs.push(forged);
        }
        // id order = `Ord` order = iteration order of a BTreeSet<Transaction>; a pair shares all fields but the
        // signature and owners are distinct, so ids 2b and 2b+1 are the two transactions of one base
        txs.sort();
        for b in 0..N_TX {
            assert!(txs[2 * b].owner == txs[2 * b + 1].owner && txs[2 * b] != txs[2 * b + 1], "pairs adjacent");
        }
        // bases 0 and 2: two different base registers (other permissions, both signed by the owner) at ONE address;
        // base 1 lives at another address (a foreign register when the key of address 0 is read)
        let owners: Vec<SecretKey> = (0..2).map(|_| SecretKey::random()).collect();
        let extra_writer = SecretKey::random().public_key();
        let bases = (0..N_BASE)
            .map(|b| {
                let sk = owners[b % 2].clone();
                let meta = XorName::from_content(&[(b % 2) as u8, 77]);
                let perms = if b == 2 { Permissions::new_with([extra_writer]) } else { Permissions::default() };
                let register = Register::new(sk.public_key(), meta, perms);
                let bytes = register.bytes().expect("register bytes");
                let good_sig = sk.sign(&bytes);
                let bad_sig = stranger.sign(&bytes);
                let mut crdt = RegisterCrdt::new(*register.address());
                let ops = (0..N_OPS)
                    .map(|k| {
                        let (_h, addr, crdt_op) = crdt.write(vec![b as u8, k as u8], &BTreeSet::new()).expect("crdt write");
                        let signer = if k >= STRANGER_FROM { &stranger } else { &sk };
                        RegisterOp::new(addr, crdt_op, signer)
                    })
                    .collect();
                Base { register, good_sig, bad_sig, ops }
            })
            .collect();
        let pad_owners = (0..N_PAD_OWNER).map(|_| SecretKey::random()).collect();
        Universe { stranger, txs, bases, pad_owners, cache: HashMap::new(), rev: HashMap::new(), by_hash: HashMap::new() }
    }

    fn signed_register(&self, base: usize, good: bool, ops: &[usize]) -> SignedRegister {
        let b = &self.bases[base];
        let sig = if good { b.good_sig.clone() } else { b.bad_sig.clone() };
        SignedRegister::new(b.register.clone(), sig, ops.iter().map(|o| b.ops[*o].clone()).collect())
    }

    /// the record value for a token (built once per run; BLS encryption in scratchpads is randomised)
    fn bytes(&mut self, tok_s: &str) -> Option<Vec<u8>> {
        if let Some(b) = self.cache.get(tok_s) {
            return Some(b.clone());
        }
        let tok = parse_tok(tok_s)?;
        let v: Vec<u8> = match &tok {
            Tok::Junk(n) => vec![0xff, 0xff, *n as u8, (*n >> 8) as u8, 0xff],
            Tok::Hdr(k, n) => {
                let kind = match k {
                    'c' => RecordKind::Chunk,
                    't' => RecordKind::Transaction,
                    'r' => RecordKind::Register,
                    's' => RecordKind::Scratchpad,
                    _ => RecordKind::RegisterWithPayment,
                };
                // body: a msgpack integer, which is neither a Vec<Transaction> nor a struct
                try_serialize_record(&(1_000_000u64 + *n), kind).ok()?.to_vec()
            }
            Tok::Txs(ids) => {
                let v: Vec<Transaction> = ids.iter().map(|i| self.txs[*i].clone()).collect();
                try_serialize_record(&v, RecordKind::Transaction).ok()?.to_vec()
            }
            Tok::Reg { base, good, ops } => {
                let r = self.signed_register(*base, *good, ops);
                try_serialize_record(&r, RecordKind::Register).ok()?.to_vec()
            }
            Tok::Pad { owner, counter, variant, good } => {
                let sk = &self.pad_owners[*owner];
                let mut pad = Scratchpad::new(sk.public_key(), 0);
                for _ in 1..*counter {
                    let _ = pad.increment();
                }
                let signer = if *good { sk.clone() } else { self.stranger.clone() };
                let _ = pad.update_and_sign(bytes::Bytes::from(vec![*variant as u8; 4]), &signer);
                try_serialize_record(&pad, RecordKind::Scratchpad).ok()?.to_vec()
            }
        };
        self.cache.insert(tok_s.to_string(), v.clone());
        self.rev.insert(v.clone(), tok_s.to_string());
        self.by_hash.insert(XorName::from_content(&v), tok_s.to_string());
        Some(v)
    }

    /// the record key at which the registers of address `a` live (bases `a`, `a + 2`, ..)
    fn reg_key(&self, a: usize) -> RecordKey {
        ant_protocol::NetworkAddress::from_register_address(*self.bases[a].register.address()).to_record_key()
    }

    /// the record key at which the scratchpad of pad owner `o` lives
    fn pad_key(&self, o: usize) -> RecordKey {
        Scratchpad::new(self.pad_owners[o].public_key(), 0).network_address().to_record_key()
    }

    fn tx_ids(&self, value: &[u8]) -> Option<Vec<usize>> {
        let rec = record(RecordKey::new(b"k"), value.to_vec());
        let header = RecordHeader::from_record(&rec).ok()?;
        if !matches!(header.kind, RecordKind::Transaction) {
            return None;
        }
        let v: Vec<Transaction> = try_deserialize_record(&rec).ok()?;
        v.iter().map(|t| self.txs.iter().position(|x| x == t)).collect()
    }

    /// canonical token of a value the code handed back
    fn describe(&self, value: &[u8], sort_tx: bool) -> String {
        if let Some(t) = self.rev.get(value) {
            if !(sort_tx && t.starts_with('t')) {
                return t.clone();
            }
        }
        let rec = record(RecordKey::new(b"k"), value.to_vec());
        let Ok(header) = RecordHeader::from_record(&rec) else {
            return "?noheader".into();
        };
        match header.kind {
            RecordKind::Transaction => match self.tx_ids(value) {
                Some(mut ids) => {
                    if sort_tx {
                        ids.sort();
                    }
                    format!("t{}", tx_dotted(&ids))
                }
                None => "?tx".into(),
            },
            RecordKind::Register => {
                let Ok(reg) = try_deserialize_record::<SignedRegister>(&rec) else {
                    return "?reg".into();
                };
                for (b, base) in self.bases.iter().enumerate() {
                    if reg.base_register() != &base.register {
                        continue;
                    }
                    let ops: Option<Vec<usize>> = reg.ops().iter().map(|o| base.ops.iter().position(|x| x == o)).collect();
                    let Some(mut ops) = ops else { return "?regop".into() };
                    ops.sort();
                    for good in [true, false] {
                        if self.signed_register(b, good, &ops) == reg {
                            let mut s = format!("r{b}{}", if good { "g" } else { "b" });
                            for o in &ops {
                                s.push_str(&format!(".{o}"));
                            }
                            return s;
                        }
                    }
                    return "?regsig".into();
                }
                "?regbase".into()
            }
            RecordKind::Scratchpad => {
                let Ok(pad) = try_deserialize_record::<Scratchpad>(&rec) else {
                    return "?pad".into();
                };
                let mut hits: Vec<&String> = self
                    .cache
                    .iter()
                    .filter(|(t, v)| {
                        t.starts_with('s')
                            && try_deserialize_record::<Scratchpad>(&record(RecordKey::new(b"k"), (*v).clone())).map(|p| p == pad).unwrap_or(false)
                    })
                    .map(|(t, _)| t)
                    .collect();
                hits.sort();
                hits.first().map(|t| (*t).clone()).unwrap_or_else(|| "?padunknown".into())
            }
            _ => "?kind".into(),
        }
    }
}

fn record(key: RecordKey, value: Vec<u8>) -> Record {
    Record { key, value, publisher: None, expires: None }
}

fn key_of(k: u64) -> RecordKey {
    RecordKey::new(&format!("verif-key-{k}"))
}

// ---------------------------------------------------------------------------------------------------------
// harness state
// ---------------------------------------------------------------------------------------------------------

#[derive(Clone)]
struct CfgInfo {
    quorum: Quorum,
    target: Option<Vec<u8>>,
    is_reg: bool,
    /// `expected_holders` as peer numbers (0 = the driver itself)
    expected: Vec<u64>,
    text: String,
}

fn qval(q: &Quorum) -> usize {
    // the property's reading of the quorum names, not the code's table
    match q {
        Quorum::One => 1,
        Quorum::Majority => CLOSE_GROUP_SIZE / 2 + 1,
        Quorum::All => CLOSE_GROUP_SIZE,
        Quorum::N(n) => n.get(),
    }
}

struct Caller {
    rx: Option<oneshot::Receiver<GetResult>>,
    outcome: Option<String>,
    hung: bool,
    q: usize,
    cfg: CfgInfo,
}

struct QInfo {
    id: QueryId,
    key: u64,
    first: CfgInfo,
    replies: Vec<(u64, Vec<u8>, u64)>, // peer, value, key carried by the record
    callers: Vec<usize>,
    done: bool,
}

struct H {
    _rt: tokio::runtime::Runtime,
    driver: SwarmDriver,
    network: ant_networking::Network,
    self_peer: PeerId,
    peers: Vec<PeerId>,
    uni: Universe,
    queries: Vec<QInfo>,
    callers: Vec<Caller>,
    history: Vec<String>,
    strict: bool,
    /// `--mode net`: the oracle-only component that drives the real `Network::get_record_from_network`
    net_mode: bool,
}

fn ret_str(r: std::result::Result<(), NetworkError>) -> String {
    match r {
        Ok(()) => "ok".into(),
        Err(NetworkError::ReceivedKademliaEventDropped { .. }) => "dropped".into(),
        Err(NetworkError::InternalMsgChannelDropped) => "chan".into(),
        Err(e) => format!("err:{}", format!("{e:?}").split(|c: char| !c.is_alphanumeric()).next().unwrap_or("?")),
    }
}

impl H {
    fn new(strict: bool) -> Self {
        let rt = tokio::runtime::Builder::new_multi_thread().worker_threads(1).enable_all().build().expect("rt");
        let driver = {
            let _g = rt.enter();
            let (_network, _events, driver) = NetworkBuilder::new(Keypair::generate_ed25519(), false).build_client().expect("build_client");
            // keep the command/event channel ends alive for the life of the process
            let network = _network.clone();
            std::mem::forget(_network);
            std::mem::forget(_events);
            (driver, network)
        };
        let (driver, network) = driver;
        let self_peer = hook::self_peer_id(&driver);
        H { _rt: rt, driver, network, self_peer, peers: vec![], uni: Universe::new(), queries: vec![], callers: vec![], history: vec![], strict, net_mode: false }
    }

    fn peer(&mut self, p: u64) -> Option<PeerId> {
        if p == 0 {
            return None;
        }
        while self.peers.len() < p as usize {
            self.peers.push(PeerId::random());
        }
        Some(self.peers[p as usize - 1])
    }

    fn peer_int(&self, p: &PeerId) -> String {
        if *p == self.self_peer {
            return "0".into();
        }
        match self.peers.iter().position(|x| x == p) {
            Some(i) => (i + 1).to_string(),
            None => "?".into(),
        }
    }

    fn map_str(&self, rows: Vec<(String, Vec<String>)>) -> String {
        let mut rows: Vec<(String, String)> = rows
            .into_iter()
            .map(|(t, ps)| {
                let mut ps: Vec<u64> = ps.iter().map(|p| p.parse().unwrap_or(u64::MAX)).collect();
                ps.sort();
                (t, dotted(&ps))
            })
            .collect();
        rows.sort();
        rows.iter().map(|(t, ps)| format!("{t}={ps}")).collect::<Vec<_>>().join(",")
    }

    fn key_sfx(pre: &str, key: &RecordKey, qkey: u64) -> String {
        if *key == key_of(qkey) {
            return String::new();
        }
        match (0..=15u64).find(|k| key_of(*k) == *key) {
            Some(k) => format!("{pre}k{k}"),
            None => format!("{pre}k?"),
        }
    }

    fn outcome_str(&self, r: &GetResult, qkey: u64) -> String {
        match r {
            Ok(rec) => format!("ok {}{}", self.uni.describe(&rec.value, false), Self::key_sfx(" key=", &rec.key, qkey)),
            Err(GetRecordError::NotEnoughCopies { record, expected, got }) => {
                format!("notenough {} {expected} {got}{}", self.uni.describe(&record.value, false), Self::key_sfx(" key=", &record.key, qkey))
            }
            Err(GetRecordError::QueryTimeout) => "timeout".into(),
            Err(GetRecordError::RecordDoesNotMatch(rec)) => {
                format!("mismatch {}{}", self.uni.describe(&rec.value, false), Self::key_sfx(" key=", &rec.key, qkey))
            }
            Err(GetRecordError::RecordKindMismatch) => "kindmismatch".into(),
            Err(GetRecordError::RecordNotFound) => "notfound".into(),
            Err(GetRecordError::SplitRecord { result_map }) => {
                let rows = result_map
                    .values()
                    .map(|(rec, peers)| {
                        (format!("{}{}", self.uni.describe(&rec.value, false), Self::key_sfx("@", &rec.key, qkey)), peers.iter().map(|p| self.peer_int(p)).collect())
                    })
                    .collect();
                format!("split {}", self.map_str(rows))
            }
        }
    }

    fn pending_ids(&self) -> Vec<QueryId> {
        hook::pending_get_record(&self.driver).into_iter().map(|(id, ..)| id).collect()
    }

    fn dump(&self) -> String {
        let mut rows: Vec<(usize, String)> = hook::pending_get_record(&self.driver)
            .into_iter()
            .map(|(id, _key, n, versions)| {
                let qi = self.queries.iter().position(|q| q.id == id);
                let rows = versions
                    .iter()
                    .map(|(h, peers)| {
                        (self.uni.by_hash.get(h).cloned().unwrap_or_else(|| "?".into()), peers.iter().map(|p| self.peer_int(p)).collect())
                    })
                    .collect();
                let (qs, ks) = match qi {
                    Some(i) => (i.to_string(), self.queries[i].key.to_string()),
                    None => ("?".into(), "?".into()),
                };
                (qi.unwrap_or(usize::MAX), format!("q{qs} k{ks} n{n} [{}]", self.map_str(rows)))
            })
            .collect();
        rows.sort();
        if rows.is_empty() {
            "pending -".into()
        } else {
            format!("pending {}", rows.into_iter().map(|r| r.1).collect::<Vec<_>>().join(" | "))
        }
    }

    fn parse_cfg(&mut self, q: &str, rest: &[&str]) -> Option<CfgInfo> {
        let quorum = match q {
            "one" => Quorum::One,
            "majority" => Quorum::Majority,
            "all" => Quorum::All,
            _ => Quorum::N(NonZeroUsize::new(dec(q.strip_prefix('n')?)? as usize)?),
        };
        let mut cfg = CfgInfo { quorum, target: None, is_reg: false, expected: vec![], text: format!("{q} {}", rest.join(" ")) };
        for w in rest {
            if *w == "reg" {
                cfg.is_reg = true;
            } else if let Some(t) = w.strip_prefix("t=") {
                cfg.target = Some(self.uni.bytes(t)?);
            } else if let Some(e) = w.strip_prefix("e=") {
                // the peers the caller names as holders (`expected_holders`); not part of `text`: what a caller is owed
                // (quorum, target) does not depend on it
                let l: Option<Vec<u64>> = if e.is_empty() { Some(vec![]) } else { e.split('.').map(dec).collect() };
                cfg.expected = l?;
                if cfg.expected.iter().any(|p| *p > 64) {
                    return None;
                }
            } else {
                return None;
            }
        }
        // canonical text for "same cfg" comparisons
        cfg.text = format!("{q} {:?} {}", cfg.target.as_ref().map(|t| XorName::from_content(t)), cfg.is_reg);
        Some(cfg)
    }

    /// poll every live receiver; returns (caller, outcome text, raw result) in caller order
    fn poll(&mut self) -> Vec<(usize, String, Option<GetResult>)> {
        let mut got = vec![];
        for i in 0..self.callers.len() {
            let Some(rx) = self.callers[i].rx.as_mut() else { continue };
            match rx.try_recv() {
                Ok(res) => {
                    self.callers[i].rx = None;
                    let qkey = self.queries[self.callers[i].q].key;
                    let s = self.outcome_str(&res, qkey);
                    self.callers[i].outcome = Some(s.clone());
                    got.push((i, s, Some(res)));
                }
                Err(oneshot::error::TryRecvError::Empty) => {}
                Err(oneshot::error::TryRecvError::Closed) => {
                    self.callers[i].rx = None;
                    self.callers[i].outcome = Some("closed".into());
                    got.push((i, "closed".into(), None));
                }
            }
        }
        got
    }

    fn feed(&mut self, id: QueryId, result: QueryResult) -> String {
        let ev = kad::Event::OutboundQueryProgressed {
            id,
            result,
            stats: QueryStats::empty(),
            step: ProgressStep { count: NonZeroUsize::new(1).expect("nz"), last: false },
        };
        ret_str(hook::handle_kad_event(&mut self.driver, ev))
    }

    fn target_matches(cfg: &CfgInfo, value: &[u8]) -> bool {
        match &cfg.target {
            None => true,
            Some(t) if !cfg.is_reg => t.as_slice() == value,
            Some(t) => {
                let a = try_deserialize_record::<SignedRegister>(&record(RecordKey::new(b"k"), value.to_vec()));
                let b = try_deserialize_record::<SignedRegister>(&record(RecordKey::new(b"k"), t.clone()));
                match (a, b) {
                    (Ok(a), Ok(b)) => a.base_register() == b.base_register() && a.ops() == b.ops(),
                    _ => false,
                }
            }
        }
    }

    /// The property, stated on what the callers observed (no reference to the model).
    fn oracle_deliveries(&mut self, op: &str, pending_before: &[QueryId], got: &[(usize, String, Option<GetResult>)], out: &mut Out) {
        let hist_s = self.history.join(" ; ");
        let hist = || hist_s.clone();
        let mut touched: BTreeSet<usize> = BTreeSet::new();
        for (c, _s, res) in got {
            let qi = self.callers[*c].q;
            touched.insert(qi);
            let q = &self.queries[qi];
            let own = &self.callers[*c].cfg;
            let same_cfg = own.text == q.first.text;
            let cfg = if same_cfg || self.strict {
                own
            } else {
                out.count("oracle:K-d-restricted(joiner judged by the first caller's cfg)");
                &q.first
            };
            let mut versions: BTreeMap<&[u8], BTreeSet<u64>> = BTreeMap::new();
            // `versions`: what peers returned for the requested key; a record under another key is no answer for it
            let mut any_key: BTreeMap<&[u8], BTreeSet<u64>> = BTreeMap::new();
            for (p, v, k) in &q.replies {
                any_key.entry(v.as_slice()).or_default().insert(*p);
                if *k == q.key {
                    versions.entry(v.as_slice()).or_default().insert(*p);
                }
            }
            match res {
                Some(Ok(rec)) => {
                    out.count("outcome:ok");
                    let n_any_key = any_key.get(rec.value.as_slice()).map(|s| s.len()).unwrap_or(0);
                    let n_req_key = versions.get(rec.value.as_slice()).map(|s| s.len()).unwrap_or(0);
                    // only replies whose record carries the requested key count, and the record handed over carries it
                    // (former finding K-d3, fixed in /repo by 090e7e0): judged everywhere
                    if rec.key != key_of(q.key) {
                        out.oracle_fail("ok-for-requested-key", &hist(), &format!("caller {c} asked for key {} and got ok with a record carrying another key (after `{op}`)", q.key));
                    }
                    if n_any_key != n_req_key {
                        out.count("ok:some-peers-returned-the-value-under-another-key");
                    }
                    let n = n_req_key;
                    let is_tx = self.uni.tx_ids(&rec.value).is_some();
                    // a merged answer is legitimate only for a mergeable split: every version seen is a transaction record
                    let all_versions_tx = versions.keys().all(|v| self.uni.tx_ids(v).is_some());
                    let merged_shape = versions.len() >= 2 && is_tx && all_versions_tx;
                    if versions.len() >= 2 && is_tx && !all_versions_tx {
                        out.count("ok:transaction-value-while-a-version-of-another-kind-is-held");
                    }
                    if n >= qval(&cfg.quorum) && !merged_shape {
                        if !Self::target_matches(cfg, &rec.value) {
                            out.oracle_fail("ok-equals-target", &hist(), &format!("caller {c} got ok with a value that differs from its expected value (after `{op}`)"));
                        }
                    } else if merged_shape {
                        // differing versions: the value must be the union of all transactions seen in this query
                        let mut union: BTreeSet<usize> = BTreeSet::new();
                        for v in versions.keys() {
                            if let Some(ids) = self.uni.tx_ids(v) {
                                union.extend(ids);
                            }
                        }
                        let have: BTreeSet<usize> = self.uni.tx_ids(&rec.value).unwrap_or_default().into_iter().collect();
                        if have != union || union.is_empty() {
                            out.oracle_fail("split-merge-is-union", &hist(), &format!("caller {c}: merged transactions {have:?}, union of the versions seen is {union:?}"));
                        }
                        out.count("outcome:ok-merged-transactions");
                        if !Self::target_matches(cfg, &rec.value) {
                            if self.strict {
                                out.oracle_fail("ok-equals-target", &hist(), &format!("caller {c} got ok (merged transactions) with a value that differs from its expected value"));
                            } else {
                                out.count("oracle:K-d2-restricted(merged transactions are not compared with the target)");
                            }
                        }
                    } else {
                        out.oracle_fail(
                            "ok-has-quorum",
                            &hist(),
                            &format!("caller {c} got ok after `{op}` although only {n} distinct peer(s) returned that content for the requested key; its quorum is {}", qval(&cfg.quorum)),
                        );
                    }
                }
                Some(Err(GetRecordError::SplitRecord { result_map })) => {
                    out.count("outcome:split");
                    let mut seen: BTreeMap<Vec<u8>, BTreeSet<String>> = BTreeMap::new();
                    for (rec, peers) in result_map.values() {
                        seen.insert(rec.value.clone(), peers.iter().map(|p| self.peer_int(p)).collect());
                    }
                    let want: BTreeMap<Vec<u8>, BTreeSet<String>> =
                        versions.iter().map(|(v, ps)| (v.to_vec(), ps.iter().map(|p| p.to_string()).collect())).collect();
                    if seen != want || want.len() < 2 {
                        out.oracle_fail("split-returns-all-versions", &hist(), &format!("caller {c}: split outcome does not carry exactly the versions and responders seen"));
                    }
                }
                Some(Err(GetRecordError::RecordDoesNotMatch(rec))) => {
                    out.count("outcome:mismatch");
                    // (a plain target is a whole record: the same value under another key is rightly a mismatch)
                    if same_cfg && Self::target_matches(own, &rec.value) && (own.is_reg || rec.key == key_of(q.key)) {
                        out.oracle_fail("specific-error", &hist(), &format!("caller {c}: RecordDoesNotMatch although the value equals the expected one"));
                    }
                }
                Some(Err(e)) => {
                    let name = match e {
                        GetRecordError::NotEnoughCopies { .. } => "notenough",
                        GetRecordError::QueryTimeout => "timeout",
                        GetRecordError::RecordNotFound => "notfound",
                        _ => "other",
                    };
                    out.count(&format!("outcome:{name}"));
                }
                None => {
                    out.count("outcome:closed");
                    // a live caller must get a value or a specific error, never a bare dropped channel — whether or not
                    // another caller of the same key hung up
                    let hung_other = q.callers.iter().any(|x| self.callers[*x].hung);
                    out.oracle_fail(
                        "value-or-specific-error",
                        &hist(),
                        &format!("caller {c}: its sender was dropped without a value or an error after `{op}`{}", if hung_other { " (another caller of the same key had dropped its receiver)" } else { "" }),
                    );
                }
            }
        }
        // a terminating event for a pending query answers all of its callers in that very step, and
        // callers of one query are answered together
        let ws: Vec<&str> = op.split_whitespace().collect();
        if matches!(ws.first().copied(), Some("finished" | "notfound" | "quorumfailed" | "timeout")) {
            if let Some(qi) = ws.get(1).and_then(|q| q.parse::<usize>().ok()) {
                if qi < self.queries.len() && pending_before.contains(&self.queries[qi].id) {
                    touched.insert(qi);
                }
            }
        }
        for qi in touched {
            self.queries[qi].done = true;
            for c in &self.queries[qi].callers {
                let cl = &self.callers[*c];
                if cl.outcome.is_none() && !cl.hung {
                    out.oracle_fail("one-outcome-each", &hist(), &format!("query {qi} was answered after `{op}` but caller {c} received nothing"));
                }
            }
        }
    }

    fn end_history(&mut self, out: &mut Out) {
        let pending = self.pending_ids();
        for (i, c) in self.callers.iter().enumerate() {
            let q = &self.queries[c.q];
            let still = pending.contains(&q.id);
            if c.outcome.is_none() && !c.hung && !still {
                out.oracle_fail("one-outcome-each", &self.history.join(" ; "), &format!("caller {i} never received an outcome although its query is gone"));
            }
            if c.outcome.is_some() && still && !q.done {
                out.oracle_fail("one-outcome-each", &self.history.join(" ; "), &format!("caller {i} received an outcome while its query is still pending"));
            }
        }
        if self.callers.iter().any(|c| c.outcome.is_some()) {
            let h = self.history.join(";");
            out.nontrivial_case(&h);
        }
    }

    fn exec(&mut self, line: &str, out: &mut Out) -> String {
        let ws: Vec<&str> = line.split_whitespace().collect();
        let pending_before = self.pending_ids();
        let head = match ws.as_slice() {
            ["reset"] => {
                self.end_history(out);
                let leaked = hook::pending_get_record(&self.driver);
                for (id, ..) in &leaked {
                    let _ = self.feed(*id, QueryResult::GetRecord(Ok(GetRecordOk::FinishedWithNoAdditionalRecord { cache_candidates: Default::default() })));
                }
                self.queries.clear();
                self.callers.clear();
                self.history.clear();
                self.history.push(line.to_string());
                return if leaked.is_empty() { "reset".into() } else { format!("reset leaked={}", leaked.len()) };
            }
            ["dump"] => {
                self.history.push(line.to_string());
                return self.dump();
            }
            ["netget", ..] if self.net_mode => {
                self.history.push(line.to_string());
                let r = self.netget(line, out);
                out.nontrivial_case(line);
                return r;
            }
            ["merge", toks @ ..] => {
                self.history.push(line.to_string());
                return self.merge(toks, line, out);
            }
            ["get", k, c, q, rest @ ..] => {
                let (Some(k), Some(c)) = (dec(k), dec(c)) else { return "bad-op".into() };
                let Some(cfg) = self.parse_cfg(q, rest) else { return "bad-op".into() };
                if c as usize != self.callers.len() {
                    return "bad-op".into();
                }
                self.history.push(line.to_string());
                let (tx, rx) = oneshot::channel();
                let mut holders: HashSet<PeerId> = HashSet::new();
                for p in cfg.expected.clone() {
                    let id = self.peer(p).unwrap_or(self.self_peer);
                    holders.insert(id);
                }
                if !holders.is_empty() {
                    out.count(&format!("get:expected_holders:{}", holders.len()));
                }
                let rcfg = GetRecordCfg {
                    get_quorum: cfg.quorum,
                    retry_strategy: None,
                    target_record: cfg.target.clone().map(|v| record(key_of(k), v)),
                    expected_holders: holders,
                    is_register: cfg.is_reg,
                };
                let r = hook::handle_network_cmd(&mut self.driver, NetworkSwarmCmd::GetNetworkRecord { key: key_of(k), sender: tx, cfg: rcfg });
                if r.is_err() {
                    return ret_str(r);
                }
                let after = hook::pending_get_record(&self.driver);
                let fresh: Vec<QueryId> = after.iter().map(|x| x.0).filter(|id| !pending_before.contains(id)).collect();
                let (qi, word) = if let Some(id) = fresh.first() {
                    self.queries.push(QInfo { id: *id, key: k, first: cfg.clone(), replies: vec![], callers: vec![], done: false });
                    (self.queries.len() - 1, "new")
                } else {
                    // joined: the pending entry for this key whose sender count grew
                    let hit = after.iter().find(|x| x.1 == key_of(k)).and_then(|x| self.queries.iter().position(|q| q.id == x.0));
                    match hit {
                        Some(qi) => (qi, "join"),
                        None => return "?no-query".into(),
                    }
                };
                self.queries[qi].callers.push(c as usize);
                self.callers.push(Caller { rx: Some(rx), outcome: None, hung: false, q: qi, cfg });
                out.count(&format!("get:{word}:{q}"));
                format!("{word} q{qi}")
            }
            ["found", q, p, t, rest @ ..] if rest.len() <= 1 => {
                let (Some(q), Some(p)) = (dec(q), dec(p)) else { return "bad-op".into() };
                let fk = match rest.first() {
                    None => None,
                    Some(k) => match k.strip_prefix('k').and_then(dec) {
                        Some(k) if k <= 15 => Some(k),
                        _ => return "bad-op".into(),
                    },
                };
                let Some(v) = self.uni.bytes(t) else { return "bad-op".into() };
                if q as usize >= self.queries.len() || p > 64 {
                    return "bad-op".into();
                }
                self.history.push(line.to_string());
                let (id, key) = (self.queries[q as usize].id, self.queries[q as usize].key);
                let was_pending = pending_before.contains(&id);
                let rkey = fk.unwrap_or(key);
                if was_pending {
                    let dup = self.queries[q as usize].replies.iter().any(|(pp, vv, _)| *pp == p && *vv == v);
                    out.count(if dup { "found:duplicate-peer-same-content" } else { "found:pending" });
                    if rkey != key {
                        out.count("found:record-carries-foreign-key");
                    }
                    self.queries[q as usize].replies.push((p, v.clone(), rkey));
                } else {
                    out.count("found:late");
                }
                let peer = self.peer(p);
                let pr = PeerRecord { peer, record: record(key_of(rkey), v) };
                self.feed(id, QueryResult::GetRecord(Ok(GetRecordOk::FoundRecord(pr))))
            }
            [kind @ ("finished" | "notfound" | "quorumfailed" | "timeout"), q] => {
                let Some(q) = dec(q) else { return "bad-op".into() };
                if q as usize >= self.queries.len() {
                    return "bad-op".into();
                }
                self.history.push(line.to_string());
                let (id, key) = (self.queries[q as usize].id, key_of(self.queries[q as usize].key));
                out.count(&format!("{kind}:{}", if pending_before.contains(&id) { "pending" } else { "late" }));
                let result = match *kind {
                    "finished" => QueryResult::GetRecord(Ok(GetRecordOk::FinishedWithNoAdditionalRecord { cache_candidates: Default::default() })),
                    "notfound" => QueryResult::GetRecord(Err(kad::GetRecordError::NotFound { key, closest_peers: vec![] })),
                    "quorumfailed" => QueryResult::GetRecord(Err(kad::GetRecordError::QuorumFailed { key, records: vec![], quorum: NonZeroUsize::new(1).expect("nz") })),
                    _ => QueryResult::GetRecord(Err(kad::GetRecordError::Timeout { key })),
                };
                self.feed(id, result)
            }
            ["hangup", c] => {
                let Some(c) = dec(c) else { return "bad-op".into() };
                if c as usize >= self.callers.len() {
                    return "bad-op".into();
                }
                self.history.push(line.to_string());
                out.count("hangup");
                let cl = &mut self.callers[c as usize];
                if cl.outcome.is_none() {
                    cl.hung = true;
                }
                cl.rx = None;
                "ok".into()
            }
            _ => return "bad-op".into(),
        };
        let got = self.poll();
        self.oracle_deliveries(line, &pending_before, &got, out);
        let mut s = head;
        if !line.starts_with("get") {
            for (c, o, _) in &got {
                s.push_str(&format!(" ; c{c} {o}"));
            }
        } else if !got.is_empty() {
            s.push_str(" ?unexpected-delivery");
        }
        s
    }

    /// `netget <quorum> [t=<content>] [reg] a<attempts> / <peer>:<content>[:m] ... <fin|to|nf|qf> / ...`
    /// The real `Network::get_record_from_network` runs as a task; every `GetNetworkRecord` command it sends is taken from
    /// the driver's command channel, handed to `handle_network_cmd`, and the query it creates is fed the replies of the
    /// next attempt listed (`:m` = the holder's record carries a publisher and an expiry) and its terminating event;
    /// attempts not listed find nothing (`nf`). `a<k>` = `RetryStrategy::N(k)` (k attempts; the back-off sleeps are real).
    /// The key read is the register key of address 0 when the line names a register, else pad owner 0's key.
    /// Output: `net a=<attempts made> ok <content>` | `net a=<n> err <class>`.
    fn netget(&mut self, line: &str, out: &mut Out) -> String {
        use ant_networking::verif::driver as driver_hook;
        let parts: Vec<&str> = line.split(" / ").collect();
        let head: Vec<&str> = parts[0].split_whitespace().collect();
        if head.len() < 3 || head[0] != "netget" {
            return "bad-op".into();
        }
        let Some(k) = head[head.len() - 1].strip_prefix('a').and_then(dec) else { return "bad-op".into() };
        if k == 0 || k > 3 {
            return "bad-op".into();
        }
        let Some(cfg) = self.parse_cfg(head[1], &head[2..head.len() - 1]) else { return "bad-op".into() };
        let mut attempts: Vec<(Vec<(u64, String, bool)>, String)> = vec![];
        for a in &parts[1..] {
            let ws: Vec<&str> = a.split_whitespace().collect();
            let Some((term, replies)) = ws.split_last() else { return "bad-op".into() };
            if !["fin", "to", "nf", "qf"].contains(term) {
                return "bad-op".into();
            }
            let mut rs = vec![];
            for r in replies {
                let f: Vec<&str> = r.split(':').collect();
                let ok = (f.len() == 2 || (f.len() == 3 && f[2] == "m")) && dec(f[0]).map(|p| p <= 64).unwrap_or(false) && self.uni.bytes(f[1]).is_some();
                if !ok {
                    return "bad-op".into();
                }
                rs.push((dec(f[0]).unwrap_or(0), f[1].to_string(), f.len() == 3));
            }
            attempts.push((rs, term.to_string()));
        }
        let all_toks: Vec<String> = attempts.iter().flat_map(|a| a.0.iter().map(|r| r.1.clone())).chain(head.iter().filter_map(|w| w.strip_prefix("t=").map(|t| t.to_string()))).collect();
        let is_reg = |t: &String| t.starts_with('r') || t.starts_with("hr");
        let is_pad = |t: &String| t.starts_with('s') || t.starts_with("hs");
        if all_toks.iter().any(is_reg) && all_toks.iter().any(is_pad) {
            return "bad-op".into();
        }
        let key = if all_toks.iter().any(is_reg) { self.uni.reg_key(0) } else { self.uni.pad_key(0) };
        let rcfg = GetRecordCfg {
            get_quorum: cfg.quorum,
            retry_strategy: if k > 1 { Some(ant_protocol::storage::RetryStrategy::N(NonZeroUsize::new(k as usize).expect("nz"))) } else { None },
            target_record: cfg.target.clone().map(|v| record(key.clone(), v)),
            expected_holders: cfg.expected.clone().into_iter().map(|p| self.peer(p).unwrap_or(self.self_peer)).collect(),
            is_register: cfg.is_reg,
        };
        let (net, k2, c2) = (self.network.clone(), key.clone(), rcfg.clone());
        let handle = self._rt.spawn(async move { net.get_record_from_network(k2, &c2).await });
        let deadline = std::time::Instant::now() + std::time::Duration::from_secs(90);
        let mut used = 0usize;
        while !handle.is_finished() {
            if std::time::Instant::now() > deadline {
                handle.abort();
                return "net hang".into();
            }
            let Some(cmd) = driver_hook::try_recv_network_cmd(&mut self.driver) else {
                std::thread::sleep(std::time::Duration::from_millis(1));
                continue;
            };
            let before = self.pending_ids();
            let _ = hook::handle_network_cmd(&mut self.driver, cmd);
            let fresh: Vec<QueryId> = self.pending_ids().into_iter().filter(|id| !before.contains(id)).collect();
            let Some(id) = fresh.first().copied() else { continue };
            let (replies, term) = attempts.get(used).cloned().unwrap_or((vec![], "nf".to_string()));
            used += 1;
            for (p, t, meta) in replies {
                let Some(v) = self.uni.bytes(&t) else { continue };
                let peer = self.peer(p);
                let mut rec = record(key.clone(), v);
                if meta {
                    // what a holder may put on the wire next to the value: a publisher and a time-to-live
                    rec.publisher = Some(PeerId::random());
                    rec.expires = Some(std::time::Instant::now() + std::time::Duration::from_secs(3600));
                }
                let _ = self.feed(id, QueryResult::GetRecord(Ok(GetRecordOk::FoundRecord(PeerRecord { peer, record: rec }))));
            }
            let result = match term.as_str() {
                "fin" => QueryResult::GetRecord(Ok(GetRecordOk::FinishedWithNoAdditionalRecord { cache_candidates: Default::default() })),
                "nf" => QueryResult::GetRecord(Err(kad::GetRecordError::NotFound { key: key.clone(), closest_peers: vec![] })),
                "qf" => QueryResult::GetRecord(Err(kad::GetRecordError::QuorumFailed { key: key.clone(), records: vec![], quorum: NonZeroUsize::new(1).expect("nz") })),
                _ => QueryResult::GetRecord(Err(kad::GetRecordError::Timeout { key: key.clone() })),
            };
            let _ = self.feed(id, result);
        }
        let res = match self._rt.block_on(handle) {
            Ok(r) => r,
            Err(_) => return format!("net a={used} panic"),
        };
        out.count(&format!("netget:attempts-made:{used}-of-{k}"));
        // ---- oracle: the property at the observe point "result of get_record_from_network", on what the holders returned
        let q = qval(&cfg.quorum);
        // per attempt: version -> distinct peers, and whether some reply carried publisher/expiry
        let per_attempt: Vec<(BTreeMap<Vec<u8>, BTreeSet<u64>>, bool)> = attempts
            .iter()
            .take(used)
            .map(|(rs, _)| {
                // what the holders had returned when the attempt was answered: the replies up to the one that gave some
                // version its Q-th distinct peer (later replies of the attempt reach nobody), else all of them
                let mut m: BTreeMap<Vec<u8>, BTreeSet<u64>> = BTreeMap::new();
                for (p, t, _) in rs {
                    if let Some(v) = self.uni.bytes(t) {
                        let e = m.entry(v).or_default();
                        e.insert(*p);
                        if e.len() >= q {
                            break;
                        }
                    }
                }
                (m, rs.iter().any(|r| r.2))
            })
            .collect();
        let any_meta = per_attempt.iter().any(|a| a.1);
        match &res {
            Ok(rec) => {
                if rec.key != key {
                    out.oracle_fail("net-ok-for-requested-key", line, "get_record_from_network returned a record under another key");
                }
                let backed = per_attempt.iter().any(|(m, _)| m.get(&rec.value).map(|ps| ps.len() >= q).unwrap_or(false));
                let shown = self.uni.describe(&rec.value, true);
                if backed {
                    out.count("netget:ok-backed-by-a-quorum");
                    if !Self::target_matches(&cfg, &rec.value) {
                        // a quorum version handed back although other versions were held went through SplitRecord and the
                        // merge (which may reproduce it): K-d4; without a split it went through the target comparison
                        let unsplit = per_attempt.iter().any(|(m, _)| m.len() == 1 && m.get(&rec.value).map(|ps| ps.len() >= q).unwrap_or(false));
                        if unsplit || self.strict {
                            out.oracle_fail("net-ok-equals-target", line, &format!("get_record_from_network returned Ok({shown}), returned by a quorum, but not the caller's expected value"));
                        } else {
                            out.count("oracle:K-d4-restricted(the merge of a split is not compared with the target)");
                        }
                    }
                } else {
                    // not a version a quorum agreed on: it must be the merge of one attempt's split
                    let merge_ok = per_attempt.iter().any(|(m, _)| {
                        if m.len() < 2 {
                            return false;
                        }
                        let toks: Vec<Tok> = m.keys().filter_map(|v| self.uni.rev.get(v)).filter_map(|t| parse_tok(t)).collect();
                        match parse_tok(&shown) {
                            Some(Tok::Txs(ids)) => {
                                let mut u: BTreeSet<usize> = BTreeSet::new();
                                for t in &toks {
                                    if let Tok::Txs(l) = t {
                                        u.extend(l.iter().copied());
                                    }
                                }
                                ids.iter().copied().collect::<BTreeSet<usize>>() == u && !u.is_empty()
                            }
                            Some(Tok::Reg { base, good: true, ops }) => {
                                let mut u: BTreeSet<usize> = BTreeSet::new();
                                for t in &toks {
                                    if let Tok::Reg { base: b, good: true, ops: o } = t {
                                        if *b == base && o.iter().all(|x| *x < STRANGER_FROM) {
                                            u.extend(o.iter().copied());
                                        }
                                    }
                                }
                                base % 2 == 0 && ops.iter().copied().collect::<BTreeSet<usize>>() == u
                            }
                            Some(Tok::Pad { owner: 0, counter, good: true, .. }) => {
                                let best = toks.iter().filter_map(|t| if let Tok::Pad { owner: 0, counter, good: true, .. } = t { Some(*counter) } else { None }).max();
                                m.contains_key(&rec.value) && best == Some(counter)
                            }
                            _ => false,
                        }
                    });
                    if !merge_ok {
                        out.oracle_fail("net-ok-has-quorum", line, &format!("get_record_from_network returned Ok({shown}): neither returned by {q} distinct peers in one attempt nor the merge of one attempt's versions"));
                    }
                    out.count("netget:ok-merge-of-a-split");
                    if !Self::target_matches(&cfg, &rec.value) {
                        if self.strict {
                            out.oracle_fail("net-ok-equals-target", line, &format!("get_record_from_network returned Ok({shown}), the merge of a split, which is not the caller's expected value"));
                        } else {
                            out.count("oracle:K-d4-restricted(the merge of a split is not compared with the target)");
                        }
                    }
                }
                format!("net a={used} ok {shown}")
            }
            Err(NetworkError::GetRecordError(e)) => {
                let class = match e {
                    GetRecordError::RecordDoesNotMatch(rec) => {
                        // a plain target is a whole record: value, key, publisher, expiry
                        if !cfg.is_reg && cfg.target.as_deref() == Some(rec.value.as_slice()) && rec.key == key {
                            if any_meta && !self.strict {
                                out.count("oracle:K-d6-restricted(a holder's publisher/expiry makes an identical value differ from the target)");
                            } else {
                                out.oracle_fail("net-mismatch-on-identical-value", line, "RecordDoesNotMatch although the value returned by the quorum is byte-identical to the expected one");
                            }
                        }
                        format!("mismatch {}", self.uni.describe(&rec.value, true))
                    }
                    GetRecordError::NotEnoughCopies { .. } => "notenough".into(),
                    GetRecordError::QueryTimeout => "timeout".into(),
                    GetRecordError::RecordNotFound => "notfound".into(),
                    GetRecordError::RecordKindMismatch => "kindmismatch".into(),
                    GetRecordError::SplitRecord { .. } => "split".into(),
                };
                out.count(&format!("netget:err:{}", class.split(' ').next().unwrap_or("")));
                format!("net a={used} err {class}")
            }
            Err(NetworkError::InternalMsgChannelDropped) => format!("net a={used} err chan"),
            Err(_) => format!("net a={used} err other"),
        }
    }

    fn merge(&mut self, toks: &[&str], line: &str, out: &mut Out) -> String {
        let mut vals = vec![];
        for t in toks {
            match self.uni.bytes(t) {
                Some(v) => vals.push(v),
                None => return "bad-op".into(),
            }
        }
        let distinct: HashSet<&str> = toks.iter().copied().collect();
        if distinct.len() != toks.len() {
            return "illegal-choice".into();
        }
        // the key being read: where the scratchpad of pad owner 0 lives (s0.* are versions of it, s1.*/s2.* are not) and
        // where the registers of address 0 live (r0*, r2* are versions of it, r1* is not). The function compares the key
        // only with the own address of versions of the kind its first decodable version dictates, so the harness hands it
        // the register key when that kind is Register and the scratchpad key otherwise.
        let first_kind = toks.iter().filter_map(|t| parse_tok(t)).find_map(|t| match t {
            Tok::Junk(_) => None,
            Tok::Hdr(k, _) => Some(k),
            Tok::Txs(_) => Some('t'),
            Tok::Reg { .. } => Some('r'),
            Tok::Pad { .. } => Some('s'),
        });
        let key = if first_kind == Some('r') { self.uni.reg_key(0) } else { self.uni.pad_key(0) };
        assert!(self.uni.reg_key(0) == self.uni.reg_key(2) && self.uni.reg_key(0) != self.uni.reg_key(1), "register addresses");
        // keys of the result map, ascending in the listed order: the real content hashes when they are, else stand-ins
        let natural: Vec<XorName> = vals.iter().map(|v| XorName::from_content(v)).collect();
        let keys: Vec<XorName> = if natural.windows(2).all(|w| w[0] < w[1]) {
            out.count("merge:map-keyed-by-content-hash");
            natural
        } else {
            out.count("merge:map-keyed-by-stand-in-hashes(listed order)");
            (0..vals.len())
                .map(|i| {
                    let mut b = [0u8; 32];
                    b[0] = i as u8;
                    b[31] = 0xa5;
                    XorName(b)
                })
                .collect()
        };
        out.count(&format!("merge:{}versions", toks.len()));
        // every HashMap instance has its own hasher keys, hence its own iteration order; entries are also inserted in
        // different orders. What the function returns must not depend on any of that.
        let mut outcomes: Vec<(String, Option<Vec<u8>>)> = vec![];
        let mut orders: HashSet<Vec<XorName>> = HashSet::new();
        for round in 0..6usize {
            let mut m: HashMap<XorName, (Record, HashSet<PeerId>)> = HashMap::new();
            let n = vals.len();
            for j in 0..n {
                let i = if round % 2 == 0 { (j + round / 2) % n } else { (n - 1 - j + round / 2) % n };
                let mut peers = HashSet::new();
                peers.insert(PeerId::random());
                if i == 0 {
                    peers.insert(PeerId::random());
                }
                m.insert(keys[i], (record(key.clone(), vals[i].clone()), peers));
            }
            orders.insert(m.keys().copied().collect());
            let res = hook::handle_split_record_error(&m, &key);
            outcomes.push(match &res {
                Ok(None) => ("none".to_string(), None),
                Ok(Some(rec)) => {
                    let d = self.uni.describe(&rec.value, true);
                    // merged transactions are serialised in the iteration order of a HashSet: compared as a set only
                    let raw = if d.starts_with('t') { None } else { Some(rec.value.clone()) };
                    (format!("some {d}"), raw)
                }
                Err(_) => ("err".to_string(), None),
            });
        }
        if orders.len() > 1 {
            out.count("merge:maps-iterated-in-different-orders");
        }
        if let Some(other) = outcomes.iter().find(|o| **o != outcomes[0]) {
            out.oracle_fail(
                "split-merge-deterministic",
                line,
                &format!("the same result map, built twice, was merged into `{}` and into `{}`: the result depends on the iteration order of the HashMap", outcomes[0].0, other.0),
            );
        }
        let s = outcomes[0].0.clone();
        // oracle: the merge is the deterministic function of the versions the property names
        let parsed: Vec<Tok> = toks.iter().filter_map(|t| parse_tok(t)).collect();
        let all_tx = parsed.iter().all(|t| matches!(t, Tok::Txs(_)));
        let all_reg = parsed.iter().all(|t| matches!(t, Tok::Reg { .. }));
        let all_pad = parsed.iter().all(|t| matches!(t, Tok::Pad { .. }));
        // a version of the key: a register that lives at the key being read (address 0 = bases 0 and 2), verifies
        let valid_reg = |t: &Tok| matches!(t, Tok::Reg { base, good: true, ops } if base % 2 == 0 && ops.iter().all(|o| *o < STRANGER_FROM));
        if let Some(Tok::Reg { base, .. }) = parse_tok(s.strip_prefix("some ").unwrap_or("")) {
            // the register handed back must live at the key being read, whatever else the split held
            if base % 2 != 0 {
                out.oracle_fail("split-merge-register-of-the-key", line, &format!("got `{s}`: a register of another address than the key being read"));
            }
        }
        if parsed.iter().any(|t| matches!(t, Tok::Reg { base, .. } if base % 2 != 0)) {
            out.count("merge:holds-a-register-of-another-address");
        }
        if toks.len() >= 2 && all_tx {
            let mut u: BTreeSet<usize> = BTreeSet::new();
            for t in &parsed {
                if let Tok::Txs(ids) = t {
                    u.extend(ids.iter().copied());
                }
            }
            // distinct by ALL fields: a transaction and its look-alike are two
            let want = if u.len() > 1 { format!("some t{}", tx_dotted(&u.iter().copied().collect::<Vec<_>>())) } else { "none".into() };
            if s != want {
                out.oracle_fail("split-merge-is-union", line, &format!("transactions: got `{s}`, union of all versions is `{want}`"));
            }
            out.count("merge:oracle-transactions");
        } else if toks.len() >= 2 && all_reg {
            let valid: Vec<&Tok> = parsed.iter().filter(|t| valid_reg(t)).collect();
            let bases: BTreeSet<usize> = valid.iter().filter_map(|t| if let Tok::Reg { base, .. } = t { Some(*base) } else { None }).collect();
            if bases.len() == 1 {
                let mut u: BTreeSet<usize> = BTreeSet::new();
                for t in &valid {
                    if let Tok::Reg { ops, .. } = t {
                        u.extend(ops.iter().copied());
                    }
                }
                let mut want = format!("some r{}g", bases.iter().next().copied().unwrap_or(0));
                for o in &u {
                    want.push_str(&format!(".{o}"));
                }
                if s != want {
                    out.oracle_fail("split-merge-is-union", line, &format!("registers: got `{s}`, union of the verified registers' ops is `{want}`"));
                }
                out.count("merge:oracle-registers-one-base");
            } else if bases.is_empty() {
                if s != "none" {
                    out.oracle_fail("split-merge-is-union", line, &format!("registers: got `{s}` although no version verifies"));
                }
                out.count("merge:oracle-registers-none-valid");
            } else {
                // two base registers at one address (an owner who signed two permission sets): the base must be one of them
                match parse_tok(s.strip_prefix("some ").unwrap_or("")) {
                    Some(Tok::Reg { base, good: true, .. }) if bases.contains(&base) => {}
                    _ => out.oracle_fail("split-merge-is-union", line, &format!("registers: got `{s}`, not a merge into one of the verified bases {bases:?} of the key")),
                }
                out.count("merge:registers-several-bases-at-the-key(content hash decides the base)");
            }
        } else if toks.len() >= 2 && all_pad {
            // only validly signed scratchpads that live at the key being read (owner 0) are versions of it
            let best = parsed.iter().filter_map(|t| if let Tok::Pad { owner: 0, counter, good: true, .. } = t { Some(*counter) } else { None }).max();
            match (best, parse_tok(s.strip_prefix("some ").unwrap_or(""))) {
                (None, _) => {
                    if s != "none" {
                        out.oracle_fail("split-merge-is-union", line, &format!("scratchpads: got `{s}` although no version is a validly signed scratchpad of the key"));
                    }
                }
                (Some(b), Some(Tok::Pad { owner, counter, good, .. })) => {
                    if !(good && owner == 0 && counter == b && toks.contains(&s.trim_start_matches("some "))) {
                        out.oracle_fail("split-merge-is-union", line, &format!("scratchpads: got `{s}`, the highest valid counter is {b}"));
                    }
                }
                (Some(b), _) => out.oracle_fail("split-merge-is-union", line, &format!("scratchpads: got `{s}`, the highest valid counter is {b}")),
            }
            out.count("merge:oracle-scratchpads");
        } else {
            out.count("merge:mixed-kinds(first decodable header dictates)");
        }
        if s.contains('?') || s == "err" {
            out.oracle_fail("split-merge-is-union", line, &format!("merge produced an unrecognised value: {s}"));
        }
        s
    }
}

// ---------------------------------------------------------------------------------------------------------
// generation
// ---------------------------------------------------------------------------------------------------------

fn corpus() -> Vec<Vec<&'static str>> {
    vec![
        // K-d: a Quorum::All joiner is answered under the first caller's Quorum::One
        vec!["reset", "get 0 0 one", "get 0 1 all", "found 0 1 hc0"],
        // K-d2: merged transactions are delivered as ok without the target comparison
        vec!["reset", "get 0 0 n2 t=t0", "found 0 1 t1", "found 0 2 t0", "found 0 3 t0"],
        // the same peer answering twice counts once
        vec!["reset", "get 0 0 n2", "found 0 1 hc0", "found 0 1 hc0", "dump", "found 0 2 hc0"],
        vec!["reset", "get 0 0 n2", "found 0 0 hc0", "found 0 0 hc0", "finished 0"],
        // split, short and timed-out sequences
        vec!["reset", "get 0 0 majority", "get 0 1 majority", "found 0 1 hc0", "found 0 2 hc1", "found 0 3 hc0", "found 0 4 hc1", "finished 0", "merge hc0 hc1"],
        vec!["reset", "get 0 0 n2", "found 0 1 r0g.0", "found 0 2 r0g.1", "found 0 3 r0g.1", "merge r0g.1 r0g.0"],
        vec!["reset", "get 0 0 all", "found 0 1 hc0", "found 0 2 hc0", "timeout 0", "found 0 3 hc0", "finished 0", "notfound 0"],
        vec!["reset", "get 0 0 majority t=hc1", "found 0 1 hc0", "found 0 2 hc0", "found 0 3 hc0"],
        vec!["reset", "get 0 0 one t=r0g.1 reg", "found 0 1 r0b.1"],
        vec!["reset", "get 0 0 majority", "get 0 1 majority", "get 0 2 majority", "hangup 1", "found 0 1 hc0", "found 0 2 hc0", "found 0 3 hc0"],
        vec!["reset", "get 0 0 n3", "get 1 1 one", "get 0 2 n3", "get 0 3 n3", "found 1 1 x0", "notfound 0", "quorumfailed 1"],
        // expected value given (`does_target_match`): plain bytes, is_register (base + ops), undecodable records
        vec!["reset", "get 0 0 one t=r0g.1 reg", "found 0 1 r0g.1"],
        vec!["reset", "get 0 0 one t=r0g.1 reg", "found 0 1 r0g.1.2"],
        vec!["reset", "get 0 0 one t=r0g.1.2 reg", "found 0 1 r0g.1"],
        vec!["reset", "get 0 0 one t=r0g.1 reg", "found 0 1 r0g.2"],
        vec!["reset", "get 0 0 one t=r0g.1 reg", "found 0 1 r1g.1"],
        vec!["reset", "get 0 0 one t=r0g.1 reg", "found 0 1 r0b.1"],
        vec!["reset", "get 0 0 one t=r0g.1 reg", "found 0 1 hr0"],
        vec!["reset", "get 0 0 one t=hr0 reg", "found 0 1 hr0"],
        vec!["reset", "get 0 0 one t=r0g reg", "found 0 1 r0g.0"],
        vec!["reset", "get 0 0 one t=r0g reg", "found 0 1 r0g"],
        vec!["reset", "get 0 0 one t=r0g.1 reg", "found 0 1 r0g.1.6"],
        vec!["reset", "get 0 0 one t=t0 reg", "found 0 1 t0"],
        vec!["reset", "get 0 0 one t=r0g.1", "found 0 1 r0b.1"],
        vec!["reset", "get 0 0 one t=r0g.1", "found 0 1 r0g.1"],
        vec!["reset", "get 0 0 n2 t=r0g.0 reg", "found 0 1 r0g.0.1", "found 0 2 r0g.0.1"],
        vec!["reset", "get 0 0 majority t=r0g.0.1 reg", "get 0 1 majority t=r0g.0.1 reg", "found 0 1 r0g.0.1", "found 0 2 r0b.0.1", "found 0 3 r0g.0.1", "found 0 4 r0g.0.1"],
        vec!["reset", "get 0 0 one t=hc0", "found 0 1 hc0"],
        vec!["reset", "get 0 0 one t=x0", "found 0 1 x1"],
        vec!["reset", "get 0 0 one t=t0.1", "found 0 1 t1.0"],
        vec!["reset", "get 0 0 one t=t0.1", "found 0 1 t0.1"],
        vec!["reset", "get 0 0 one t=s0.1.0g", "found 0 1 s0.2.0g"],
        vec!["reset", "get 0 0 one t=s0.1.0g", "found 0 1 s0.1.0g"],
        // replies whose record carries a key other than the requested one are ignored (first two: former finding K-d3)
        vec!["reset", "get 0 0 one", "found 0 1 hc0 k1"],
        vec!["reset", "get 0 0 n2", "found 0 1 hc0 k1", "found 0 2 hc0"],
        vec!["reset", "get 0 0 n2", "found 0 1 hc0", "found 0 2 hc0 k3", "dump"],
        vec!["reset", "get 0 0 majority", "get 0 1 majority", "found 0 1 hc0 k1", "found 0 2 hc0 k2", "found 0 3 hc0 k0"],
        vec!["reset", "get 0 0 n2", "found 0 1 hc0 k1", "found 0 2 hc1", "finished 0"],
        vec!["reset", "get 0 0 n3", "found 0 1 hc0 k1", "found 0 2 hc0", "finished 0"],
        vec!["reset", "get 0 0 one t=hc0", "found 0 1 hc0 k1"],
        vec!["reset", "get 0 0 one t=r0g.1 reg", "found 0 1 r0g.1 k1"],
        vec!["reset", "get 0 0 n2", "found 0 1 t1", "found 0 2 t0", "found 0 3 t0 k2"],
        vec!["reset", "get 0 0 n2", "found 0 1 hc1 k1", "found 0 2 hc0", "found 0 3 hc0 k2"],
        // a transaction and a look-alike that differs only in the signature: both paths must keep the two apart
        vec!["reset", "get 0 0 n2", "found 0 1 t0", "found 0 2 t0s", "found 0 3 t0"],
        vec!["reset", "get 0 0 n2", "found 0 1 t0s", "found 0 2 t0", "found 0 3 t0"],
        vec!["reset", "get 0 0 n2", "get 0 1 n2", "found 0 1 t1.2s", "found 0 2 t2.1s", "found 0 3 t3", "found 0 4 t2.1s"],
        vec!["reset", "get 0 0 n2", "found 0 1 t0", "found 0 2 t0s", "finished 0", "merge t0 t0s", "merge t0s t0"],
        vec!["reset", "merge t0.1 t0s.1s", "merge t2s t2 t2.2s", "merge t3 t3s.3"],
        // a split holding a version that is no transaction record is never answered with a transaction union (first line:
        // the former defect — three peers agree on a chunk, one peer returned a transaction record, the caller got `ok t5`)
        vec!["reset", "get 0 0 majority t=hc0", "found 0 1 t5", "found 0 2 hc0", "found 0 3 hc0", "found 0 4 hc0"],
        vec!["reset", "get 0 0 majority", "get 0 1 majority", "found 0 1 t5", "found 0 2 hc0", "found 0 3 hc0", "found 0 4 hc0", "merge t5 hc0", "merge hc0 t5"],
        vec!["reset", "get 0 0 n2", "found 0 1 hc0", "found 0 2 t0", "found 0 3 t0"],
        vec!["reset", "get 0 0 n2 t=t0", "found 0 1 r0g.0", "found 0 2 t0", "found 0 3 t1", "found 0 4 t0"],
        vec!["reset", "get 0 0 n2", "found 0 1 t1", "found 0 2 x0", "found 0 3 s0.1.0g", "found 0 4 s0.1.0g"],
        vec!["reset", "get 0 0 n2", "found 0 1 t", "found 0 2 t0", "found 0 3 t0", "get 1 1 n2", "found 1 1 ht0", "found 1 2 t0", "found 1 3 t0"],
        // a validly signed register of ANOTHER address in the split (r1*) is no version of the key, wherever its content
        // hash places it (first line: the former defect — the foreign register visited first dictated the base); r0*/r2*
        // are two base registers at the address being read
        vec!["reset", "merge r1g.1 r0g.0 r0g.2", "merge r0g.0 r1g.1 r0g.2", "merge r0g.0 r0g.2 r1g.1", "merge r1g.1 r0g.0", "merge r1g.0 r1g.1", "merge r1b.0 r0g.1 r0g.2",
             "merge r0g.0 r2g.1", "merge r2g.1 r0g.0", "merge r1g.3 r2g.1 r0g.0 r2g.4", "merge hr0 r1g.1 r0g.2", "merge r1g.1.6 r0g.2.6 r0g.3"],
        vec!["reset", "get 0 0 n2", "found 0 1 r1g.1", "found 0 2 r0g.0", "found 0 3 r0g.2", "finished 0", "merge r1g.1 r0g.0 r0g.2"],
        // named holders (`expected_holders`: answering, silent, more or fewer than the quorum) never change the number of
        // copies required — not while replies arrive (each answering holder leaves the set), not at finished / timeout
        vec!["reset", "get 0 0 majority e=1.2.3", "found 0 1 hc0", "found 0 2 hc0", "dump", "found 0 3 hc0"],
        vec!["reset", "get 0 0 majority e=1.2", "found 0 1 hc0", "dump", "found 0 2 hc0", "finished 0"],
        vec!["reset", "get 0 0 majority e=1.2.3", "found 0 1 hc0", "found 0 2 hc0", "timeout 0"],
        vec!["reset", "get 0 0 majority e=1.2", "found 0 1 hc0", "timeout 0"],
        vec!["reset", "get 0 0 n3 e=7", "found 0 1 hc0", "finished 0"],
        vec!["reset", "get 0 0 n2 e=7.8", "found 0 1 hc0", "found 0 7 hc0"],
        vec!["reset", "get 0 0 all e=1.2.3.4.5.6", "found 0 1 hc0", "found 0 2 hc0", "found 0 3 hc0", "found 0 4 hc0", "finished 0"],
        vec!["reset", "get 0 0 n2 e=0.1 t=hc0", "found 0 0 hc0", "found 0 0 hc0", "timeout 0"],
        vec!["reset", "get 0 0 one e=", "get 0 1 n3 e=1.2", "found 0 2 hc0"],
        // Quorum::N up to the replication factor and beyond: exactly that many distinct peers are needed
        vec!["reset", "get 0 0 n6", "found 0 1 hc0", "found 0 2 hc0", "found 0 3 hc0", "found 0 3 hc0", "found 0 4 hc0", "found 0 5 hc0", "dump", "found 0 6 hc0"],
        vec!["reset", "get 0 0 n6", "found 0 1 hc0", "found 0 2 hc0", "found 0 3 hc0", "found 0 4 hc0", "found 0 5 hc0", "finished 0"],
        vec!["reset", "get 0 0 n7", "found 0 1 hc0", "found 0 2 hc0", "found 0 3 hc0", "found 0 4 hc0", "found 0 5 hc0", "found 0 6 hc0", "timeout 0"],
        vec!["reset", "get 0 0 n8", "found 0 0 hc0", "found 0 1 hc0", "found 0 2 hc0", "found 0 3 hc0", "found 0 4 hc0", "found 0 5 hc0", "found 0 6 hc0", "dump", "found 0 7 hc0"],
        vec!["reset", "get 0 0 n5", "get 0 1 n5", "found 0 1 hc0", "found 0 2 hc0", "found 0 3 hc0", "found 0 4 hc0", "found 0 4 hc0", "found 0 5 hc0"],
        // a caller that hung up, at the head / in the middle / at the tail of the queue: the others are answered
        vec!["reset", "get 0 0 one", "get 0 1 one", "get 0 2 one", "hangup 0", "found 0 1 hc0"],
        vec!["reset", "get 0 0 n2", "get 0 1 n2", "get 0 2 n2", "hangup 1", "found 0 1 hc0", "found 0 2 hc1", "finished 0"],
        vec!["reset", "get 0 0 one", "get 0 1 one", "get 0 2 one", "get 0 3 one", "hangup 1", "hangup 3", "timeout 0"],
        vec!["reset", "get 0 0 n2 t=t0", "get 0 1 n2", "hangup 0", "found 0 1 t1", "found 0 2 t0", "found 0 3 t0"],
        vec!["reset", "get 0 0 one", "get 0 1 one", "hangup 0", "hangup 1", "notfound 0"],
        // ties: equal highest counters, several verified bases, mixed kinds — both listings; scratchpads of other owners
        vec!["reset", "merge s0.2.0g s0.2.1g", "merge s0.2.1g s0.2.0g", "merge r0g.0 r1g.1", "merge r1g.1 r0g.0", "merge t0 r0g.1 s0.1.0g", "merge s0.1.0g r0g.1 t0",
             "merge s1.3.0g s0.2.0g s0.1.1g", "merge s1.2.0g s2.2.0g", "merge s0.1.0g s1.1.0g", "merge s0.3.0b s1.3.0g s0.1.0g"],
        vec!["reset", "merge t0.1 t1.2 t3", "merge t1 t1.1", "merge s0.1.0g s0.3.1b s0.2.0g", "merge s0.2.0g s0.2.1g", "merge r0g.0 r0b.1 r0g.2.6 r0g.3", "merge r0g.0 r1g.1", "merge hc0 t0.1 t2", "merge x0 t0.1 t2 hr0"],
    ]
}

fn pool(rng: &mut Rng, fam: u64) -> Vec<String> {
    let cands: Vec<&str> = match fam {
        0 | 1 => vec!["hc0", "hc1", "hc2", "x0", "hp0"],
        2 => vec!["t0", "t1", "t0.1", "t2.3", "t1.0", "t", "ht0", "t4", "t0s", "t1s", "t0.0s", "t1s.0", "t4s"],
        3 => vec!["r0g.0", "r0g.1", "r0g.0.1", "r0b.0", "r0g.2.6", "r1g.0", "r0g", "hr0", "r0g.3.4", "r2g.1", "r1g.2.3"],
        4 => vec!["s0.1.0g", "s0.2.0g", "s0.2.1g", "s0.3.0b", "s1.2.0g", "hs0", "s0.3.1g"],
        _ => vec!["hc0", "t0", "t1.2", "r0g.0", "s0.1.0g", "x1", "r0g.1"],
    };
    let n = rng.range(1, 3) as usize;
    let mut v: Vec<String> = cands.iter().map(|s| s.to_string()).collect();
    rng.shuffle(&mut v);
    v.truncate(n);
    v
}

/// ` e=<peers>`: 0..=6 named holders drawn from `0..bound` (answering peers, and with a larger bound silent ones)
fn gen_expected(rng: &mut Rng, bound: u64) -> String {
    let mut ps: Vec<u64> = (0..bound.max(1)).collect();
    rng.shuffle(&mut ps);
    ps.truncate(rng.below(7) as usize);
    ps.sort();
    format!(" e={}", dotted(&ps))
}

fn gen_quorum(rng: &mut Rng) -> String {
    match rng.below(20) {
        0..=3 => "one".into(),
        4..=9 => "majority".into(),
        10..=11 => "all".into(),
        12..=15 => "n2".into(),
        16..=17 => "n3".into(),
        18 => "n1".into(),
        _ => format!("n{}", rng.range(4, 8)),
    }
}

/// a `merge` line over `toks`: half of the time listed in the order of the real content hashes (the result map is
/// then keyed by them, as production builds it), else in a random order (keyed by stand-in hashes in that order)
fn merge_line(h: &mut H, rng: &mut Rng, toks: &[String]) -> String {
    let mut v: Vec<String> = toks.to_vec();
    if rng.chance(1, 2) {
        v.sort_by_key(|t| h.uni.bytes(t).map(|b| XorName::from_content(&b)));
    } else {
        rng.shuffle(&mut v);
    }
    format!("merge {}", v.join(" "))
}

fn run_line(h: &mut H, out: &mut Out, line: &str) -> String {
    let r = catch_unwind(AssertUnwindSafe(|| h.exec(line, out))).unwrap_or_else(|_| "panic".into());
    if r == "panic" {
        out.oracle_fail("no-panic", &h.history.join(" ; "), &format!("handler panicked on `{line}`"));
    }
    out.line(line, r.clone());
    r
}

/// Quorum::N(1..=8) / majority / all against 0..=8 distinct agreeing peers (plus duplicates, optionally a
/// second version), then a terminating event.
fn gen_saturation(h: &mut H, rng: &mut Rng, out: &mut Out) {
    run_line(h, out, "reset");
    let q = match rng.below(10) {
        0 => "majority".to_string(),
        1 => "all".to_string(),
        _ => format!("n{}", rng.range(1, 8)),
    };
    let ncallers = rng.range(1, 3);
    // half of the saturation histories name holders: among the peers that will answer and among silent ones
    let named = if rng.chance(1, 2) { gen_expected(rng, 12) } else { String::new() };
    for c in 0..ncallers {
        run_line(h, out, &format!("get 0 {c} {q}{named}"));
    }
    let main = *rng.pick(&["hc0", "t0.1", "r0g.0", "s0.1.0g", "x0", "t0"]);
    let other = *rng.pick(&["hc1", "t2", "r0g.1", "s0.2.0g", "x1", "t0s"]);
    let distinct = rng.below(9);
    let mut peers: Vec<u64> = (0..9).collect();
    rng.shuffle(&mut peers);
    peers.truncate(distinct as usize);
    let mut seen: Vec<u64> = vec![];
    for p in peers {
        if !seen.is_empty() && rng.chance(1, 3) {
            let d = *rng.pick(&seen);
            run_line(h, out, &format!("found 0 {d} {main}"));
        }
        if rng.chance(1, 8) {
            run_line(h, out, &format!("found 0 {p} {other}"));
        }
        run_line(h, out, &format!("found 0 {p} {main}"));
        seen.push(p);
    }
    out.count(&format!("saturation:{q}:{distinct}-distinct-peers"));
    run_line(h, out, "dump");
    let kind = *rng.pick(&["finished", "timeout", "notfound", "quorumfailed"]);
    let r = run_line(h, out, &format!("{kind} 0"));
    if let Some(i) = r.find(" split ") {
        let first = r[i + 7..].split(" ; ").next().unwrap_or("");
        let toks: Vec<String> = first.split(',').filter_map(|kv| kv.split('=').next()).map(|s| s.to_string()).collect();
        let l = merge_line(h, rng, &toks);
        run_line(h, out, &l);
    }
}

/// A caller that gives an expected value of some kind, and enough peers returning a value that is equal to it /
/// a superset / a subset / disjoint / of another base / badly signed / of another kind.
fn gen_target(h: &mut H, rng: &mut Rng, out: &mut Out) {
    run_line(h, out, "reset");
    // (target, reply, relation)
    let reg_cases: Vec<(&str, &str, &str)> = vec![
        ("r0g.1", "r0g.1", "equal"), ("r0g.0.2", "r0g.0.2", "equal"), ("r0g", "r0g", "equal"),
        ("r0g.1", "r0g.1.2", "superset"), ("r0g.0", "r0g.0.1", "superset"), ("r0g", "r0g.3", "superset"), ("r0g.1", "r0g.1.6", "superset"),
        ("r0g.1.2", "r0g.1", "subset"), ("r0g.0.1", "r0g.0", "subset"), ("r0g.3", "r0g", "subset"),
        ("r0g.1", "r0g.2", "disjoint"), ("r0g.0.1", "r0g.1.2", "overlap"),
        ("r0g.1", "r1g.1", "other-base"), ("r1g.0", "r0g.0", "other-base"),
        ("r0g.1", "r0b.1", "bad-signature"), ("r0b.1", "r0g.1", "bad-signature"), ("r0g.0.1", "r0b.0.1", "bad-signature"),
        ("r0g.1", "hr0", "undecodable"), ("hr0", "hr0", "undecodable"), ("r0g.1", "t0", "other-kind"), ("t0", "t0", "other-kind"),
    ];
    let plain_cases: Vec<(&str, &str, &str)> = vec![
        ("hc0", "hc0", "equal"), ("hc0", "hc1", "different"), ("x0", "x0", "equal"), ("x0", "x1", "different"),
        ("t0.1", "t0.1", "equal"), ("t0.1", "t1.0", "different"), ("t0", "t0.1", "different"),
        ("s0.1.0g", "s0.1.0g", "equal"), ("s0.1.0g", "s0.2.0g", "different"), ("s0.1.0g", "s0.1.1g", "different"),
        ("r0g.1", "r0g.1", "equal"), ("r0g.1", "r0b.1", "different"), ("r0g.1", "r0g.1.2", "different"), ("hp0", "hp0", "equal"),
    ];
    let is_reg = rng.chance(3, 5);
    let (t, r, rel) = if is_reg { *rng.pick(&reg_cases) } else { *rng.pick(&plain_cases) };
    let q = match rng.below(6) {
        0 | 1 => "one".to_string(),
        2 => "majority".to_string(),
        _ => format!("n{}", rng.range(1, 4)),
    };
    let cfg = format!("{q} t={t}{}", if is_reg { " reg" } else { "" });
    let ncallers = rng.range(1, 3);
    for c in 0..ncallers {
        run_line(h, out, &format!("get 0 {c} {cfg}"));
    }
    out.count(&format!("target:{}:{rel}", if is_reg { "is_register" } else { "plain" }));
    let need = match q.as_str() {
        "one" => 1,
        "majority" => 3,
        n => n[1..].parse::<u64>().unwrap_or(1),
    };
    for p in 1..=need + 1 {
        if rng.chance(1, 6) {
            // an occasional reply that does equal the target
            run_line(h, out, &format!("found 0 {} {t}", p + 10));
        }
        let line = format!("found 0 {p} {r}");
        let res = run_line(h, out, &line);
        if rng.chance(1, 5) {
            run_line(h, out, &line);
        }
        if let Some(i) = res.find(" split ") {
            let first = res[i + 7..].split(" ; ").next().unwrap_or("");
            let toks: Vec<String> = first.split(',').filter_map(|kv| kv.split('=').next()).map(|s| s.to_string()).collect();
            let l = merge_line(h, rng, &toks);
            run_line(h, out, &l);
        }
    }
    loop {
        let ids = h.pending_ids();
        let Some(qi) = (0..h.queries.len()).find(|i| ids.contains(&h.queries[*i].id)) else { break };
        run_line(h, out, &format!("finished {qi}"));
        if h.pending_ids().iter().any(|id| *id == h.queries[qi].id) {
            break;
        }
    }
}

/// A split of mixed kinds: a quorum of peers agrees on one version while one or two peers returned a version of
/// another kind (a transaction record next to a chunk / register / scratchpad / junk, or the other way round), in a
/// random arrival order; optionally the caller expects the quorum version.
fn gen_mixed_split(h: &mut H, rng: &mut Rng, out: &mut Out) {
    run_line(h, out, "reset");
    let tx = *rng.pick(&["t0", "t1.2", "t5", "t0s", "t3.4s"]);
    let other = *rng.pick(&["hc0", "r0g.0", "s0.1.0g", "x0", "hp0", "ht0", "r1g.1"]);
    let (major, minor) = if rng.chance(1, 2) { (other, tx) } else { (tx, other) };
    let (q, need) = match rng.below(4) {
        0 => ("majority".to_string(), 3u64),
        1 => ("n1".to_string(), 1),
        _ => {
            let n = rng.range(2, 4);
            (format!("n{n}"), n)
        }
    };
    let mut cfg = q.clone();
    if rng.chance(1, 2) {
        cfg.push_str(&format!(" t={}", if rng.chance(3, 4) { major } else { minor }));
    }
    for c in 0..rng.range(1, 2) {
        run_line(h, out, &format!("get 0 {c} {cfg}"));
    }
    let mut replies: Vec<(u64, &str)> = (1..=need).map(|p| (p, major)).collect();
    for p in 0..rng.range(1, 2) {
        replies.push((need + 1 + p, minor));
    }
    if rng.chance(1, 3) {
        replies.push((need + 4, *rng.pick(&["t2", "hc1", "t0"])));
    }
    rng.shuffle(&mut replies);
    out.count(&format!("mixed-split:{}", if major == tx { "transactions-reach-the-quorum" } else { "another-kind-reaches-the-quorum" }));
    for (p, t) in replies {
        let r = run_line(h, out, &format!("found 0 {p} {t}"));
        if let Some(i) = r.find(" split ") {
            let first = r[i + 7..].split(" ; ").next().unwrap_or("");
            let toks: Vec<String> = first.split(',').filter_map(|kv| kv.split('=').next()).map(|s| s.to_string()).collect();
            let l = merge_line(h, rng, &toks);
            run_line(h, out, &l);
        }
    }
    if h.pending_ids().contains(&h.queries[0].id) {
        let kind = *rng.pick(&["finished", "timeout", "notfound"]);
        run_line(h, out, &format!("{kind} 0"));
    }
}

fn gen_history(h: &mut H, rng: &mut Rng, out: &mut Out) {
    match rng.below(10) {
        0 | 1 => return gen_saturation(h, rng, out),
        2 | 3 => return gen_target(h, rng, out),
        4 => return gen_mixed_split(h, rng, out),
        _ => {}
    }
    run_line(h, out, "reset");
    let fam = rng.below(6);
    let pool = pool(rng, fam);
    let nkeys = if rng.chance(1, 4) { 2 } else { 1 };
    let same_cfg = rng.chance(1, 2); // half of the histories: every caller of a key uses the first caller's cfg
    let mut cfg_of_key: HashMap<u64, String> = HashMap::new();
    let npeers = rng.range(2, 9);
    let foreign_keys = rng.chance(1, 6); // some replies carry a record under another (or explicitly the same) key
    let steps = rng.range(4, 16);
    let gen_get = |h: &mut H, rng: &mut Rng, out: &mut Out, cfg_of_key: &mut HashMap<u64, String>| {
        let k = rng.below(nkeys);
        let per_key = h.callers.iter().filter(|c| h.queries[c.q].key == k && c.outcome.is_none()).count();
        if per_key >= 4 {
            return;
        }
        let mut cfg = gen_quorum(rng);
        if rng.chance(2, 5) {
            cfg.push_str(&format!(" t={}", rng.pick(&pool)));
            if fam == 3 && rng.chance(1, 2) {
                cfg.push_str(" reg");
            }
        }
        if rng.chance(1, 3) {
            cfg.push_str(&gen_expected(rng, npeers + 2));
        }
        let cfg = if same_cfg { cfg_of_key.entry(k).or_insert(cfg).clone() } else { cfg };
        let c = h.callers.len();
        run_line(h, out, &format!("get {k} {c} {cfg}"));
    };
    gen_get(h, rng, out, &mut cfg_of_key);
    for _ in 0..steps {
        let nq = h.queries.len() as u64;
        if nq == 0 {
            break;
        }
        let pending: Vec<usize> = {
            let ids = h.pending_ids();
            (0..h.queries.len()).filter(|i| ids.contains(&h.queries[*i].id)).collect()
        };
        let pick_q = |rng: &mut Rng| -> u64 {
            if !pending.is_empty() && rng.chance(9, 10) {
                *rng.pick(&pending) as u64
            } else {
                rng.below(nq)
            }
        };
        let r = match rng.below(100) {
            0..=17 => {
                gen_get(h, rng, out, &mut cfg_of_key);
                String::new()
            }
            18..=81 => {
                let q = pick_q(rng);
                let p = rng.below(npeers);
                let c = if rng.chance(7, 10) { pool[0].clone() } else { rng.pick(&pool).clone() };
                let k = if foreign_keys && rng.chance(1, 3) { format!(" k{}", rng.below(3)) } else { String::new() };
                run_line(h, out, &format!("found {q} {p} {c}{k}"))
            }
            82..=90 => {
                let q = pick_q(rng);
                let kind = *rng.pick(&["finished", "finished", "notfound", "quorumfailed", "timeout", "timeout"]);
                run_line(h, out, &format!("{kind} {q}"))
            }
            91..=94 => {
                if h.callers.is_empty() {
                    String::new()
                } else {
                    let c = rng.below(h.callers.len() as u64);
                    run_line(h, out, &format!("hangup {c}"))
                }
            }
            _ => run_line(h, out, "dump"),
        };
        // the split a caller received is what `get_record_from_network` hands to `handle_split_record_error`
        if let Some(i) = r.find(" split ") {
            let first = r[i + 7..].split(" ; ").next().unwrap_or("");
            let toks: Vec<String> = first.split(',').filter_map(|kv| kv.split('=').next()).map(|s| s.to_string()).collect();
            let l = merge_line(h, rng, &toks);
            run_line(h, out, &l);
        }
    }
    run_line(h, out, "dump");
    // terminate what is still pending
    loop {
        let ids = h.pending_ids();
        let Some(q) = (0..h.queries.len()).find(|i| ids.contains(&h.queries[*i].id)) else { break };
        let kind = *rng.pick(&["finished", "finished", "notfound", "quorumfailed", "timeout", "timeout"]);
        let r = run_line(h, out, &format!("{kind} {q}"));
        if !h.pending_ids().iter().all(|id| *id != h.queries[q].id) {
            break; // would loop forever; the leak shows up at the next reset
        }
        if let Some(i) = r.find(" split ") {
            let first = r[i + 7..].split(" ; ").next().unwrap_or("");
            let toks: Vec<String> = first.split(',').filter_map(|kv| kv.split('=').next()).map(|s| s.to_string()).collect();
            let l = merge_line(h, rng, &toks);
            run_line(h, out, &l);
        }
    }
    // stand-alone merges over this family's versions
    if rng.chance(1, 2) {
        let fam2 = if rng.chance(3, 4) { rng.range(2, 4) } else { 5 };
        let cands: Vec<&str> = match fam2 {
            2 => vec!["t0", "t1", "t0.1", "t2.3", "t1.0", "t", "ht0", "t4", "t1.1", "t0s", "t1s", "t0.0s", "t1s.1", "t4s"],
            3 => vec!["r0g.0", "r0g.1", "r0g.0.1", "r0b.0", "r0g.2.6", "r1g.0", "r0g", "hr0", "r0g.3.4", "r1g.1.2", "r0b.5", "r2g.0", "r2g.1.2", "r1g.4", "r1b.1"],
            4 => vec!["s0.1.0g", "s0.2.0g", "s0.2.1g", "s0.3.0b", "s1.2.0g", "hs0", "s0.3.1g", "s1.3.0b", "s0.3.0g", "s2.3.0g", "s0.2.2g"],
            _ => vec!["hc0", "t0", "t1.2", "r0g.0", "s0.1.0g", "x1", "r0g.1", "hp0", "t0.3", "s0.2.0g"],
        };
        let mut v: Vec<&str> = cands.clone();
        rng.shuffle(&mut v);
        v.truncate(rng.range(1, 4) as usize);
        let toks: Vec<String> = v.iter().map(|s| s.to_string()).collect();
        let l = merge_line(h, rng, &toks);
        run_line(h, out, &l);
    }
}

/// thorough tier: every sequence of at most 5 replies over 3 peers x 2 versions, under quorum 2 and majority,
/// ended by each kind of terminating event
fn exhaustive(h: &mut H, out: &mut Out) {
    let symbols: Vec<(u64, &str)> = vec![(1, "hc0"), (2, "hc0"), (3, "hc0"), (1, "hc1"), (2, "hc1"), (3, "hc1")];
    for quorum in ["n2", "majority"] {
        for len in 0..=5u32 {
            let total = (symbols.len() as u64).pow(len);
            for code in 0..total {
                for term in ["finished", "timeout", "notfound", "quorumfailed"] {
                    run_line(h, out, "reset");
                    run_line(h, out, &format!("get 0 0 {quorum}"));
                    run_line(h, out, &format!("get 0 1 {quorum}"));
                    let mut c = code;
                    for _ in 0..len {
                        let (p, v) = symbols[(c % symbols.len() as u64) as usize];
                        c /= symbols.len() as u64;
                        run_line(h, out, &format!("found 0 {p} {v}"));
                    }
                    run_line(h, out, &format!("{term} 0"));
                }
            }
        }
    }
    out.count("exhaustive:histories(<=5 replies, 3 peers x 2 versions, 2 quorums, 4 terminators)");
}

/// `--mode net` corpus: the observe point "result of `Network::get_record_from_network`"
fn corpus_net() -> Vec<&'static str> {
    vec![
        // K-d4: the merge of a split is returned as Ok without being compared with the expected value
        "netget n2 t=r0g.0 reg a1 / 1:r0g.0 2:r0g.1 fin",
        "netget n2 t=r0g.0 a1 / 1:r0g.0 2:r0g.1 fin",
        "netget n2 t=s0.1.0g a1 / 1:s0.1.0g 2:s0.2.0g fin",
        "netget majority t=t0 a1 / 1:t0 2:t1 3:t0 fin",
        // K-d6: the last responder's record carries a publisher/expiry: a byte-identical value no longer equals the target
        "netget majority t=hc0 a1 / 1:hc0 2:hc0 3:hc0:m fin",
        "netget majority t=hc0 a1 / 1:hc0:m 2:hc0 3:hc0 fin",
        "netget majority a1 / 1:hc0:m 2:hc0:m 3:hc0:m fin",
        "netget one t=r0g.1 reg a1 / 1:r0g.1:m fin",
        // plain quorum reads, errors, foreign registers, mixed splits, retries (real back-off sleeps)
        "netget majority t=hc0 a1 / 1:hc0 2:hc0 3:hc0 fin",
        "netget majority e=1.2.3 a1 / 1:hc0 2:hc0 fin",
        "netget majority e=1.2 a1 / 1:hc0 to",
        "netget majority t=hc1 a1 / 1:hc0 2:hc0 3:hc0 fin",
        "netget majority a1 / 1:hc0 2:hc0 fin",
        "netget n2 a1 / 1:hc0 2:hc1 to",
        "netget n2 a1 / 1:hc0 2:hc1 fin",
        "netget one a1 / nf",
        "netget n2 a1 / 1:r1g.1 2:r0g.0 3:r0g.2 fin",
        "netget majority t=hc0 a1 / 1:t5 2:hc0 3:hc0 4:hc0 fin",
        "netget n2 a2 / 1:hc0 to / 1:hc0 2:hc0 fin",
        "netget n2 t=r0g.0.1 reg a2 / 1:hc0 2:hc1 fin / 1:r0g.0 2:r0g.1 fin",
    ]
}

fn gen_net(rng: &mut Rng) -> String {
    let (q, need) = match rng.below(5) {
        0 => ("one".to_string(), 1u64),
        1 | 2 => ("majority".to_string(), 3),
        _ => {
            let n = rng.range(2, 3);
            (format!("n{n}"), n)
        }
    };
    let fams: Vec<Vec<&str>> = vec![
        vec!["hc0", "hc1", "x0", "hp0"],
        vec!["t0", "t1", "t0.1", "t2.3", "t0s", "t", "ht0"],
        vec!["r0g.0", "r0g.1", "r0g.0.1", "r0b.2", "r0g.2.6", "r1g.1", "r2g.1", "hr0", "r0g"],
        vec!["s0.1.0g", "s0.2.0g", "s0.2.1g", "s0.3.0b", "s1.3.0g", "hs0"],
        vec!["hc0", "t0", "t1.2", "x1", "r0g.0", "r0g.1"],
    ];
    let fam = rng.pick(&fams).clone();
    let main = *rng.pick(&fam);
    let mut cfg = q.clone();
    let mut reg = false;
    if rng.chance(3, 5) {
        let t = if rng.chance(2, 3) { main } else { *rng.pick(&fam) };
        cfg.push_str(&format!(" t={t}"));
        if t.starts_with('r') && rng.chance(1, 2) {
            cfg.push_str(" reg");
            reg = true;
        }
    }
    let _ = reg;
    if rng.chance(1, 3) {
        cfg.push_str(&gen_expected(rng, 13));
    }
    let mut replies: Vec<String> = vec![];
    let agreeing = if rng.chance(2, 3) { need } else { rng.below(need + 1) };
    for p in 1..=agreeing {
        replies.push(format!("{p}:{main}{}", if rng.chance(1, 8) { ":m" } else { "" }));
    }
    for p in 0..rng.below(3) {
        replies.push(format!("{}:{}{}", 10 + p, rng.pick(&fam), if rng.chance(1, 10) { ":m" } else { "" }));
    }
    if rng.chance(1, 5) && !replies.is_empty() {
        let d = rng.pick(&replies).clone();
        replies.push(d);
    }
    rng.shuffle(&mut replies);
    let term = *rng.pick(&["fin", "fin", "fin", "to", "nf"]);
    format!("netget {cfg} a1 / {}{}{term}", replies.join(" "), if replies.is_empty() { "" } else { " " })
}

fn main() {
    std::panic::set_hook(Box::new(|_| {}));
    let args = common::parse_args();
    let mut out = Out::new(&args.out);
    let mut rng = Rng::new(args.seed);
    if args.extra.get("mode").map(|m| m == "net").unwrap_or(false) {
        // oracle-only component: the real `Network::get_record_from_network` over the real driver handlers
        let mut h = H::new(args.replay.is_some());
        h.net_mode = true;
        if let Some(f) = &args.replay {
            for line in common::read_lines(f) {
                run_line(&mut h, &mut out, &line);
            }
        } else {
            for line in corpus_net() {
                run_line(&mut h, &mut out, line);
            }
            for _ in 0..args.n {
                let l = gen_net(&mut rng);
                run_line(&mut h, &mut out, &l);
            }
            out.notes.push("netget: merges of a split are not compared with the target (K-d4); a holder-set publisher/expiry on the completing reply makes a byte-identical value differ from a plain target (K-d6): both judged only in replays".into());
        }
        out.finish();
        return;
    }
    if let Some(f) = &args.replay {
        // replay: the property at full strength (every caller judged by its own cfg)
        let mut h = H::new(true);
        for line in common::read_lines(f) {
            run_line(&mut h, &mut out, &line);
        }
        h.end_history(&mut out);
    } else {
        // generation: the quorum/target clause for a caller that joined an in-flight query with a different cfg is
        // judged by the cfg of the query's first caller (known finding K-d); merged transactions are not compared
        // with the target (K-d2). Everything else is evaluated everywhere.
        let mut h = H::new(false);
        for hist in corpus() {
            for line in hist {
                run_line(&mut h, &mut out, line);
            }
        }
        for _ in 0..args.n {
            gen_history(&mut h, &mut rng, &mut out);
        }
        if args.n >= 10000 {
            exhaustive(&mut h, &mut out);
        }
        h.end_history(&mut out);
        out.notes.push("callers' receivers are alive unless a `hangup` line says otherwise; after a hangup the handler still answers every other caller and then returns InternalMsgChannelDropped".into());
    }
    out.finish();
}
