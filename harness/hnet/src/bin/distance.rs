//! C11: distance computations — real code vs. Lean model, with digests / XOR distances computed
//! independently here (sha2 + num-bigint).
//! Op lines:
//!   form <kind> <rawhex> <xorhex>                      -> "<as_bytes> <to_record_key> <as_bytes(from_record_key(to_record_key))>"
//!   distance <bytesA> <bytesB> <H(A) dec> <H(B) dec>   -> decimal of convert_distance_to_u256(a.distance(b))
//!   bind <targetbytes> <id=peerbytes>…                 -> "id:dist …"  distances target→peer from the raw bytes (model: its own SHA-256); the
//!                                                         pairs of the following peer-list op must agree with them (`unbound-dist` otherwise)
//!   sort <expected> <id:dist>…                        -> "ok ids…" | "err notenough"   (sort_peers_by_address)
//!   inrange <range> <id:dist>…                        -> "ok ids…"                      (get_peers_in_range)
//!   closest <num|-> <range|-> <id:dist>…              -> "ok ids…"                      (Node::calculate_get_closest_peers)
//!   proofresp <difficulty> <keyid|-> <id:dist>…        -> "ok ids…" | "one found" | "one missing"   (difficulty 1: the key itself only; keyid = the key's chunk id; Node::handle_query(GetChunkExistenceProof) = respond_x_closest_record_proof over a node
//!                                                         holding exactly the listed CHUNK records; ids index the world's chunk addresses; target = the key)
//!   derive-range <nonfull> <full> <id:dist>…           -> "ok <range>" | "none"   (the set_farthest_record_interval arm of a real, RUNNING SwarmDriver whose
//!                                                         routing table holds exactly the listed peers; the range is read back through GetLocalQuotingMetrics;
//!                                                         target 40 = the node itself; <nonfull> <full> = the bucket statistics the estimate starts from)
//!   replcand <range|-> <id:dist>…                      -> "ok ids…"   (SwarmDriver::get_replicate_candidates on a real, never-run node
//!                                                         driver whose routing table holds exactly the listed peers; target 40 = the node itself)
use ant_evm::U256;
use ant_networking::{sort_peers_by_address, verif::cmd::get_peers_in_range};
use ant_node::verif::node::VerifNode;
use ant_protocol::{
    convert_distance_to_u256,
    storage::{ChunkAddress, ScratchpadAddress, TransactionAddress},
    NetworkAddress,
};
use ant_registers::RegisterAddress;
use common::{hex, Out, Rng};
use libp2p::{identity::Keypair, kad::RecordKey, PeerId};
use num_bigint::BigUint;
use sha2::{Digest, Sha256};
use std::collections::BTreeMap;
use std::panic::{catch_unwind, AssertUnwindSafe};
use xor_name::XorName;

fn digest(bytes: &[u8]) -> BigUint {
    BigUint::from_bytes_be(&Sha256::digest(bytes))
}
fn xor(a: &BigUint, b: &BigUint) -> BigUint {
    a ^ b
}
fn u256_of(b: &BigUint) -> U256 {
    U256::from_str_radix(&b.to_string(), 10).expect("u256")
}

struct World {
    /// secret key bytes of the node whose `SwarmDriver` the `replcand` op builds
    node_sk: [u8; 32],
    peers: Vec<PeerId>,
    addrs: Vec<(String, NetworkAddress, Vec<u8>, Vec<u8>)>, // kind, address, raw, xorname
    /// replay support: address bytes by hex
    by_bytes: BTreeMap<String, NetworkAddress>,
    /// the chunk records a node may hold (`proofresp`)
    chunks: Vec<NetworkAddress>,
}

fn rand_peer(rng: &mut Rng) -> PeerId {
    let mut sk = [0u8; 32];
    sk.copy_from_slice(&rng.bytes(32));
    let kp = Keypair::ed25519_from_bytes(sk).expect("ed25519");
    PeerId::from(kp.public())
}

fn rand_addr(rng: &mut Rng) -> (String, NetworkAddress, Vec<u8>, Vec<u8>) {
    let mut x = [0u8; 32];
    x.copy_from_slice(&rng.bytes(32));
    let xn = XorName(x);
    match rng.below(6) {
        0 => {
            let p = rand_peer(rng);
            ("peer".into(), NetworkAddress::from_peer(p), p.to_bytes(), vec![])
        }
        1 => ("chunk".into(), NetworkAddress::from_chunk_address(ChunkAddress::new(xn)), vec![], x.to_vec()),
        2 => ("tx".into(), NetworkAddress::from_transaction_address(TransactionAddress::new(xn)), vec![], x.to_vec()),
        3 => {
            let mut skb = [0u8; 32];
            skb.copy_from_slice(&rng.bytes(32));
            skb[0] &= 0x3f;
            let pk = bls::SecretKey::from_bytes(skb).expect("sk").public_key();
            let ra = RegisterAddress::new(xn, pk);
            ("reg".into(), NetworkAddress::from_register_address(ra), vec![], ra.xorname().0.to_vec())
        }
        4 => {
            let n = *rng.pick(&[0usize, 1, 31, 32, 33, 64]);
            let raw = rng.bytes(n);
            ("key".into(), NetworkAddress::from_record_key(&RecordKey::new(&raw)), raw, vec![])
        }
        _ => {
            let mut skb = [0u8; 32];
            skb.copy_from_slice(&rng.bytes(32));
            skb[0] &= 0x3f;
            let pk = bls::SecretKey::from_bytes(skb).expect("sk").public_key();
            let sa = ScratchpadAddress::new(pk);
            ("pad".into(), NetworkAddress::from_scratchpad_address(sa), vec![], sa.xorname().0.to_vec())
        }
    }
}

fn peers_line(w: &World, target: &NetworkAddress, idx: &[usize]) -> String {
    let ht = digest(&target.as_bytes());
    idx.iter()
        .map(|i| format!("{}:{}", i, xor(&ht, &digest(&NetworkAddress::from_peer(w.peers[*i]).as_bytes()))))
        .collect::<Vec<_>>()
        .join(" ")
}

fn ids_of(w: &World, ps: &[PeerId]) -> String {
    let s: Vec<String> = ps.iter().map(|p| w.peers.iter().position(|q| q == p).expect("known peer").to_string()).collect();
    if s.is_empty() { "ok".into() } else { format!("ok {}", s.join(" ")) }
}

fn parse_peers(w: &World, ws: &[&str]) -> Vec<PeerId> {
    ws.iter().map(|t| w.peers[t.split(':').next().expect("id").parse::<usize>().expect("id")]).collect()
}

/// executes one op on the real code; `target` is the address the peer distances on the line refer to
fn exec(w: &World, line: &str, target: &NetworkAddress) -> String {
    let ws: Vec<&str> = line.split_whitespace().collect();
    match ws.as_slice() {
        ["form", _k, raw, xorh] => {
            let a = w.addrs.iter().find(|(_, _, r, x)| hex(r) == *raw && hex(x) == *xorh).map(|t| t.1.clone()).expect("addr");
            let key = a.to_record_key();
            let back = NetworkAddress::from_record_key(&key);
            format!("{} {} {}", hex(&a.as_bytes()), hex(key.as_ref()), hex(&back.as_bytes()))
        }
        ["distance", ba, bb, _, _] => {
            let (a, b) = (&w.by_bytes[*ba], &w.by_bytes[*bb]);
            format!("{}", convert_distance_to_u256(&a.distance(b)))
        }
        ["bind", tb, rest @ ..] => {
            // the real code's distance from the target to every listed peer, from the address bytes
            let t = &w.by_bytes[*tb];
            let v: Vec<String> = rest
                .iter()
                .map(|p| {
                    let (i, b) = p.split_once('=').expect("bind pair");
                    format!("{i}:{}", convert_distance_to_u256(&t.distance(&w.by_bytes[b])))
                })
                .collect();
            if v.is_empty() { "-".into() } else { v.join(" ") }
        }
        ["sort", n, rest @ ..] => {
            let peers = parse_peers(w, rest);
            match sort_peers_by_address(&peers, target, n.parse().expect("n")) {
                Ok(v) => ids_of(w, &v.into_iter().copied().collect::<Vec<_>>()),
                Err(_) => "err notenough".into(),
            }
        }
        ["inrange", r, rest @ ..] => {
            let peers = parse_peers(w, rest);
            let range = U256::from_str_radix(r, 10).expect("range");
            ids_of(w, &get_peers_in_range(&peers, target, range))
        }
        ["closegroup", c, me, rest @ ..] => {
            // Network::{client_get_all_close_peers_in_range_or_close_group, node_get_closest_peers} over a handle whose
            // command channel is answered here with exactly the listed peers
            let peers = parse_peers(w, rest);
            let me = w.peers[me.parse::<usize>().expect("me")];
            let client = *c != "0";
            let rt = tokio::runtime::Builder::new_current_thread().enable_all().build().expect("rt");
            let target = target.clone();
            rt.block_on(async move {
                let (ntx, mut nrx) = tokio::sync::mpsc::channel(16);
                let (ltx, _lrx) = tokio::sync::mpsc::channel(16);
                let net = ant_networking::Network::new(ntx, ltx, me, Keypair::generate_ed25519());
                let answer = tokio::spawn(async move {
                    while let Some(cmd) = nrx.recv().await {
                        if let ant_networking::verif::NetworkSwarmCmd::GetClosestPeersToAddressFromNetwork { sender, .. } = cmd {
                            let _ = sender.send(peers.clone());
                        }
                    }
                });
                let res = if client {
                    net.client_get_all_close_peers_in_range_or_close_group(&target).await
                } else {
                    net.node_get_closest_peers(&target).await
                };
                answer.abort();
                match res {
                    Ok(v) => ids_of(w, &v),
                    Err(_) => "err notenough".into(),
                }
            })
        }
        ["replcand", r, rest @ ..] => {
            let peers = parse_peers(w, rest);
            let rt = tokio::runtime::Builder::new_current_thread().enable_all().build().expect("rt");
            let res = {
                let _g = rt.enter();
                let dir = tempfile::tempdir().expect("tempdir");
                let kp = Keypair::ed25519_from_bytes(w.node_sk).expect("ed25519");
                let mut b = ant_networking::NetworkBuilder::new(kp, true);
                b.listen_addr("127.0.0.1:0".parse().expect("addr"));
                let (_network, _events, mut driver) = b.build_node(dir.path().to_path_buf()).expect("build_node");
                let mut refused = None;
                for (i, p) in peers.iter().enumerate() {
                    let addr: libp2p::Multiaddr = format!("/ip4/10.0.0.{}/udp/{}/quic-v1", i + 1, 12000 + i).parse().expect("multiaddr");
                    if !ant_networking::verif::event::add_address(&mut driver, p, addr) {
                        refused = Some(i);
                        break;
                    }
                }
                let out = match refused {
                    Some(i) => format!("refused {i}"),
                    None => {
                        if *r != "-" {
                            ant_networking::verif::event::set_distance_range(&mut driver, U256::from_str_radix(r, 10).expect("range"));
                        }
                        ids_of(w, &ant_networking::verif::cmd::get_replicate_candidates(&mut driver, target))
                    }
                };
                drop(driver);
                out
            };
            rt.shutdown_background();
            res
        }
        ["proofresp", d, _k, rest @ ..] => {
            let held: Vec<NetworkAddress> = rest.iter().map(|t| w.chunks[t.split(':').next().expect("id").parse::<usize>().expect("id")].clone()).collect();
            let difficulty: usize = d.parse().expect("difficulty");
            let rt = tokio::runtime::Builder::new_current_thread().enable_all().build().expect("rt");
            let key = target.clone();
            let key2 = target.clone();
            rt.block_on(async move {
                let (ntx, _nrx) = tokio::sync::mpsc::channel(16);
                let (ltx, mut lrx) = tokio::sync::mpsc::channel(64);
                let net = ant_networking::Network::new(ntx, ltx, w.peers[0], Keypair::generate_ed25519());
                let held2 = held.clone();
                let answer = tokio::spawn(async move {
                    while let Some(cmd) = lrx.recv().await {
                        match cmd {
                            ant_networking::verif::LocalSwarmCmd::GetAllLocalRecordAddresses { sender } => {
                                let _ = sender.send(held2.iter().map(|a| (a.clone(), ant_protocol::storage::RecordType::Chunk)).collect());
                            }
                            ant_networking::verif::LocalSwarmCmd::GetLocalRecord { key, sender } => {
                                // only what is held is there
                                let v = key.to_vec();
                                let is_held = held2.iter().any(|a| a.to_record_key() == key);
                                let _ = sender.send(is_held.then(|| libp2p::kad::Record { key, value: v, publisher: None, expires: None }));
                            }
                            _ => {}
                        }
                    }
                });
                let q = ant_protocol::messages::Query::GetChunkExistenceProof { key, nonce: 7, difficulty };
                let resp = VerifNode::handle_query(&net, q, ant_evm::RewardsAddress::default()).await;
                answer.abort();
                match resp {
                    ant_protocol::messages::Response::Query(ant_protocol::messages::QueryResponse::GetChunkExistenceProof(v)) if difficulty == 1 => {
                        // one entry, for the key itself
                        match v.as_slice() {
                            [(a, Ok(_))] if *a == key2 => "one found".into(),
                            [(a, Err(_))] if *a == key2 => "one missing".into(),
                            other => format!("unexpected {} entries", other.len()),
                        }
                    }
                    ant_protocol::messages::Response::Query(ant_protocol::messages::QueryResponse::GetChunkExistenceProof(v)) => {
                        let ids: Vec<String> = v.iter().map(|(a, _)| w.chunks.iter().position(|c| c == a).expect("held chunk").to_string()).collect();
                        if ids.is_empty() { "ok".into() } else { format!("ok {}", ids.join(" ")) }
                    }
                    other => format!("unexpected {other:?}").chars().take(40).collect(),
                }
            })
        }
        ["derive-range", _nf, _fl, rest @ ..] => {
            let peers = parse_peers(w, rest);
            let rt = tokio::runtime::Builder::new_current_thread().enable_all().build().expect("rt");
            let wait_none = if peers.len() >= 7 { 3000 } else { 400 };
            let res = rt.block_on(async {
                let dir = tempfile::tempdir().expect("tempdir");
                let kp = Keypair::ed25519_from_bytes(w.node_sk).expect("ed25519");
                let mut b = ant_networking::NetworkBuilder::new(kp, true);
                b.listen_addr("127.0.0.1:0".parse().expect("addr"));
                let (network, _events, mut driver) = b.build_node(dir.path().to_path_buf()).expect("build_node");
                for (i, p) in peers.iter().enumerate() {
                    let addr: libp2p::Multiaddr = format!("/ip4/10.0.0.{}/udp/{}/quic-v1", i + 1, 12000 + i).parse().expect("multiaddr");
                    if !ant_networking::verif::event::add_address(&mut driver, p, addr) {
                        return format!("refused {i}");
                    }
                }
                // the real run loop: its first pass through the interval arm computes and sets the range
                let run = tokio::spawn(driver.run());
                let key = NetworkAddress::from_peer(w.peers[0]).to_record_key();
                let start = std::time::Instant::now();
                let mut out = "none".to_string();
                while start.elapsed() < std::time::Duration::from_millis(wait_none) {
                    if let Ok((m, _)) = network.get_local_quoting_metrics(key.clone()).await {
                        if let Some(d) = m.network_density {
                            out = format!("ok {}", U256::from_be_bytes(d));
                            break;
                        }
                    }
                    tokio::time::sleep(std::time::Duration::from_millis(5)).await;
                }
                run.abort();
                out
            });
            rt.shutdown_background();
            res
        }
        ["closest", n, r, rest @ ..] => {
            let peers: Vec<(PeerId, Vec<libp2p::Multiaddr>)> = parse_peers(w, rest).into_iter().map(|p| (p, vec![])).collect();
            let num = if *n == "-" { None } else { Some(n.parse::<usize>().expect("n")) };
            let range = if *r == "-" { None } else { Some(U256::from_str_radix(r, 10).expect("r").to_be_bytes::<32>()) };
            let res = VerifNode::calculate_get_closest_peers(peers, target.clone(), num, range);
            let ps: Vec<PeerId> = res.into_iter().map(|(a, _)| a.as_peer_id().expect("peer")).collect();
            ids_of(w, &ps)
        }
        _ => "bad-op".into(),
    }
}

/// the property stated directly with independently computed distances
///
/// `strict`: also raise the clause "the requested number, or too few reported" where it is known to be false of the code
/// (known finding K-c-count-guard; on generated runs those cases are only counted, see `requested_count_or_reported_partial`)
fn oracle(line: &str, r: &str, out: &mut Out, strict: bool) {
    let ws: Vec<&str> = line.split_whitespace().collect();
    // the clause as worded: the requested number of peers, or an error when fewer are known
    let mut worded = |op: &str, known: usize, n: usize, can_report: bool, out: &mut Out| {
        let ok = if r.starts_with("err") { known < n } else { r.split_whitespace().count() - 1 == n };
        if ok {
            return;
        }
        // hypothesis of the _partial theorems: the guard (CLOSE_GROUP_SIZE) is the right one for this request
        let adequate = if can_report { n >= 5 && !(known >= 5 && known < n) } else { n <= known };
        if adequate || strict {
            out.oracle_fail("requested-count-or-reported", line, &format!("{known} peers known, {n} requested, got `{r}`"));
        } else {
            out.count(&format!("{op}:count-guard-gap"));
        }
    };
    if r == "panic" {
        out.oracle_fail("no-panic", line, "panicked");
        return;
    }
    // (distance, id) in input order; a stable sort by distance is what "ascending" means with duplicate peers
    let dists = |rest: &[&str]| -> Vec<(BigUint, String)> {
        rest.iter().map(|t| { let (i, d) = t.split_once(':').expect("pair"); (BigUint::parse_bytes(d.as_bytes(), 10).expect("d"), i.to_string()) }).collect()
    };
    let got: Vec<String> = r.split_whitespace().skip(1).map(|s| s.to_string()).collect();
    match ws.as_slice() {
        ["form", _, _, _] => {
            let p: Vec<&str> = r.split_whitespace().collect();
            if p.len() == 3 && p[0] != p[2] {
                out.oracle_fail("form-independent", line, "address bytes differ between the typed form and its record-key form");
            }
        }
        ["distance", ba, bb, ha, hb] => {
            let (x, y) = (BigUint::parse_bytes(ha.as_bytes(), 10).expect("h"), BigUint::parse_bytes(hb.as_bytes(), 10).expect("h"));
            let expect = xor(&x, &y).to_string();
            if r != expect {
                out.oracle_fail("xor-metric", line, &format!("distance {r}, XOR of SHA-256 digests is {expect}"));
            }
            if (ba == bb) != (r == "0") {
                out.oracle_fail("zero-iff-equal", line, &format!("distance {r} for {} addresses", if ba == bb { "equal" } else { "different" }));
            }
        }
        ["bind", tb, rest @ ..] => {
            // every bound distance is the XOR of the SHA-256 digests (sha2 + BigUint here)
            let ht = digest(&common::unhex(tb).expect("hex"));
            let gotp: Vec<&str> = r.split_whitespace().collect();
            for (p, g) in rest.iter().zip(gotp.iter()) {
                let (i, b) = p.split_once('=').expect("bind pair");
                let expect = format!("{i}:{}", xor(&ht, &digest(&common::unhex(b).expect("hex"))));
                if *g != expect {
                    out.oracle_fail("xor-metric", line, &format!("bound distance {g}, XOR of SHA-256 digests gives {expect}"));
                    break;
                }
            }
        }
        ["sort", n, rest @ ..] => {
            let d = dists(rest);
            let n: usize = n.parse().expect("n");
            worded("sort", rest.len(), n, true, out);
            if r.starts_with("err") {
                // an error with at least CLOSE_GROUP_SIZE peers known is never right, whatever the request
                if rest.len() >= 5 {
                    out.oracle_fail("too-few-reported", line, &format!("{} peers known but got {r}", rest.len()));
                }
                return;
            }
            // an answer is always the nearest ones, ascending
            let mut all = d.clone();
            all.sort_by(|a, b| a.0.cmp(&b.0));
            let expect: Vec<String> = all.iter().take(n).map(|(_, i)| i.clone()).collect();
            if got != expect {
                out.oracle_fail("closest-n-ascending", line, &format!("got {got:?}, the {n} nearest ascending are {expect:?}"));
            }
        }
        ["inrange", range, rest @ ..] => {
            let range = BigUint::parse_bytes(range.as_bytes(), 10).expect("r");
            let expect: Vec<String> = rest.iter().filter_map(|t| { let (i, x) = t.split_once(':').expect("p"); (BigUint::parse_bytes(x.as_bytes(), 10).expect("d") <= range).then(|| i.to_string()) }).collect();
            if got != expect {
                out.oracle_fail("range-filter", line, &format!("got {got:?}, peers within the range are {expect:?}"));
            }
        }
        ["closegroup", c, me, rest @ ..] => {
            // the caller's own id never counts for a client; 7 nearest others ascending; too few (<5) is an error
            let mut d = dists(rest);
            if *c != "0" {
                d.retain(|(_, i)| i != me);
            }
            worded("closegroup", d.len(), 7, true, out);
            if d.len() < 5 {
                if r != "err notenough" {
                    out.oracle_fail("close-group-too-few-reported", line, &format!("{} other peers known but got {r}", d.len()));
                }
                return;
            }
            d.sort_by(|a, b| a.0.cmp(&b.0));
            let expect: Vec<String> = d.iter().take(7).map(|(_, i)| i.clone()).collect();
            if got != expect {
                out.oracle_fail("close-group-nearest-others", line, &format!("got {got:?}, the nearest other peers ascending are {expect:?}"));
            }
        }
        ["replcand", range, rest @ ..] => {
            // the routing-table peers within the range of the TARGET, nearest first; fewer than 5 of them: the 5 nearest
            let mut d = dists(rest);
            d.sort_by(|a, b| a.0.cmp(&b.0));
            let inr: Vec<String> = if *range != "-" {
                let range = BigUint::parse_bytes(range.as_bytes(), 10).expect("r");
                d.iter().filter(|(x, _)| *x <= range).map(|(_, i)| i.clone()).collect()
            } else {
                vec![]
            };
            let expect: Vec<String> = if *range != "-" && inr.len() >= 5 { inr } else { d.iter().take(5).map(|(_, i)| i.clone()).collect() };
            if got != expect {
                out.oracle_fail("replicate-candidates", line, &format!("got {got:?}, the peers within range of the target (or the 5 nearest) are {expect:?}"));
            }
        }
        ["proofresp", dfc, k, rest @ ..] if *dfc == "1" => {
            // difficulty 1: the key itself, found exactly when it is one of the held chunks
            let held = rest.iter().any(|t| t.split(':').next() == Some(*k));
            let expect = if held { "one found" } else { "one missing" };
            if r != expect {
                out.oracle_fail("challenge-response-single", line, &format!("got `{r}`, expected `{expect}`"));
            }
        }
        ["proofresp", dfc, _k, rest @ ..] => {
            // the min(difficulty, 5) held chunks nearest the key, ascending
            let mut d = dists(rest);
            d.sort_by(|a, b| a.0.cmp(&b.0));
            let k = dfc.parse::<usize>().expect("d").min(5);
            let expect: Vec<String> = d.iter().take(k).map(|(_, i)| i.clone()).collect();
            if got != expect {
                out.oracle_fail("challenge-response-nearest", line, &format!("got {got:?}, the {k} held chunks nearest the key are {expect:?}"));
            }
        }
        ["derive-range", _, _, rest @ ..] => {
            // with more than CLOSE_GROUP_SIZE + 1 peers known (and an estimate above CLOSE_GROUP_SIZE): the larger of the
            // density estimate (2^256-1)/(n+1)*5 and the XOR distance to the (CLOSE_GROUP_SIZE+1)-th nearest peer; else nothing
            let mut d = dists(rest);
            d.sort_by(|a, b| a.0.cmp(&b.0));
            let expect = if d.len() <= 6 {
                "none".to_string()
            } else {
                let max = (BigUint::from(1u8) << 256) - BigUint::from(1u8);
                let dens = (max / BigUint::from(d.len() as u64 + 1)) * BigUint::from(5u8);
                let kth = d[5].0.clone();
                out.count(if dens > kth { "derive-range:density-term-wins" } else { "derive-range:neighbour-distance-wins" });
                format!("ok {}", if dens > kth { dens } else { kth })
            };
            if r != expect {
                out.oracle_fail("range-is-distance-to-kth", line, &format!("responsible range `{r}`, expected `{expect}`"));
            }
            if let Some(v) = r.strip_prefix("ok ") {
                if d.len() > 6 && BigUint::parse_bytes(v.as_bytes(), 10).map(|b| b < d[5].0).unwrap_or(true) {
                    out.oracle_fail("range-covers-close-group", line, "the range is below the distance to the neighbour it is derived from");
                }
            }
        }
        ["closest", n, range, rest @ ..] => {
            let d = dists(rest);
            if *range == "-" && *n != "-" {
                worded("closest", rest.len(), n.parse().expect("n"), false, out);
            }
            let expect: Vec<String> = if *range != "-" {
                let range = BigUint::parse_bytes(range.as_bytes(), 10).expect("r");
                rest.iter().filter_map(|t| { let (i, x) = t.split_once(':').expect("p"); (BigUint::parse_bytes(x.as_bytes(), 10).expect("d") <= range).then(|| i.to_string()) }).collect()
            } else if *n != "-" {
                let mut all = d.clone();
                all.sort_by(|a, b| a.0.cmp(&b.0));
                all.iter().take(n.parse().expect("n")).map(|(_, i)| i.clone()).collect()
            } else {
                vec![]
            };
            if got != expect {
                out.oracle_fail("closest-peers", line, &format!("got {got:?}, expected {expect:?}"));
            }
        }
        _ => {}
    }
}

fn main() {
    let args = common::parse_args();
    let mut out = Out::new(&args.out);
    std::panic::set_hook(Box::new(|_| {}));
    // the world (peers, addresses) is a function of the seed; replay files carry the seed on their first line
    let mut seed = args.seed;
    let replay_lines = args.replay.as_ref().map(common::read_lines);
    if let Some(ls) = &replay_lines {
        if let Some(s) = ls.first().and_then(|l| l.strip_prefix("seed ")) {
            seed = s.parse().expect("seed");
        }
    }
    let mut rng = Rng::new(seed);
    let mut w = World { node_sk: [0u8; 32], peers: (0..24).map(|_| rand_peer(&mut rng)).collect(), addrs: vec![], by_bytes: BTreeMap::new(), chunks: vec![] };
    for _ in 0..40 {
        let a = rand_addr(&mut rng);
        w.by_bytes.insert(hex(&a.1.as_bytes()), a.1.clone());
        w.addrs.push(a);
    }
    // address 40: the node whose driver `replcand` builds (interval replication targets the node itself)
    w.node_sk.copy_from_slice(&rng.bytes(32));
    {
        let me = PeerId::from(Keypair::ed25519_from_bytes(w.node_sk).expect("ed25519").public());
        let a = NetworkAddress::from_peer(me);
        w.by_bytes.insert(hex(&a.as_bytes()), a.clone());
        w.addrs.push(("peer".into(), a, me.to_bytes(), vec![]));
    }
    for p in w.peers.clone() {
        let a = NetworkAddress::from_peer(p);
        w.by_bytes.insert(hex(&a.as_bytes()), a);
    }
    // the chunk records of `proofresp` (drawn after everything else so the rest of the world is unchanged)
    {
        let mut crng = Rng::new(seed ^ 0x5eed_c11);
        for _ in 0..60 {
            let mut x = [0u8; 32];
            x.copy_from_slice(&crng.bytes(32));
            let a = NetworkAddress::from_chunk_address(ChunkAddress::new(XorName(x)));
            w.by_bytes.insert(hex(&a.as_bytes()), a.clone());
            w.chunks.push(a);
        }
    }
    // every peer-list op of one run refers to one target address (chosen from the seed): target index on a "target" line
    let mut target = w.addrs[0].1.clone();
    let strict = args.replay.is_some();
    let run = |w: &World, line: &str, target: &NetworkAddress, out: &mut Out| {
        let r = catch_unwind(AssertUnwindSafe(|| exec(w, line, target))).unwrap_or_else(|_| "panic".into());
        oracle(line, &r, out, strict);
        let op = line.split_whitespace().next().unwrap_or("");
        out.count(&format!("{op}:{}", if r.starts_with("err") { "err" } else { "ok" }));
        out.nontrivial_case(line);
        out.line(line.to_string(), r);
    };
    if let Some(ls) = replay_lines {
        for l in ls {
            if let Some(t) = l.strip_prefix("target ") {
                target = match t.strip_prefix('c') {
                    Some(c) => w.chunks[c.parse::<usize>().expect("c")].clone(),
                    None => w.addrs[t.parse::<usize>().expect("t")].1.clone(),
                };
                out.line(l.clone(), "bad-op");
                continue;
            }
            if l.starts_with("seed ") {
                out.line(l.clone(), "bad-op");
                continue;
            }
            run(&w, &l, &target, &mut out);
        }
        out.finish();
        return;
    }
    out.line(format!("seed {seed}"), "bad-op");
    // corpus: the count guard of sort_peers_by_key / the missing one of calculate_get_closest_peers (K-c-count-guard):
    // 5 known / 7 requested, 2 known / 2 requested, the client's selection with 5 others, 2 known / 5 requested
    {
        target = w.addrs[0].1.clone();
        out.line("target 0".to_string(), "bad-op");
        let bind = |w: &World, idx: &[usize], target: &NetworkAddress| {
            let b: Vec<String> = idx.iter().map(|i| format!("{i}={}", hex(&NetworkAddress::from_peer(w.peers[*i]).as_bytes()))).collect();
            format!("bind {} {}", hex(&target.as_bytes()), b.join(" "))
        };
        let five = [0usize, 1, 2, 3, 4];
        let six = [0usize, 1, 2, 3, 4, 5];
        let two = [0usize, 1];
        run(&w, &bind(&w, &five, &target), &target, &mut out);
        run(&w, &format!("sort 7 {}", peers_line(&w, &target, &five)), &target, &mut out);
        run(&w, &bind(&w, &two, &target), &target, &mut out);
        run(&w, &format!("sort 2 {}", peers_line(&w, &target, &two)), &target, &mut out);
        run(&w, &format!("closest 5 - {}", peers_line(&w, &target, &two)), &target, &mut out);
        run(&w, &bind(&w, &six, &target), &target, &mut out);
        run(&w, &format!("closegroup 1 0 {}", peers_line(&w, &target, &six)), &target, &mut out);
    }
    for _ in 0..args.n {
        match rng.below(10) {
            0 => {
                let (k, _, raw, x) = rng.pick(&w.addrs).clone();
                run(&w, &format!("form {k} {} {}", hex(&raw), hex(&x)), &target, &mut out);
            }
            1..=3 => {
                let keys: Vec<String> = w.by_bytes.keys().cloned().collect();
                let a = rng.pick(&keys).clone();
                let b = if rng.chance(1, 6) { a.clone() } else { rng.pick(&keys).clone() };
                let (ha, hb) = (digest(&common::unhex(&a).expect("hex")), digest(&common::unhex(&b).expect("hex")));
                run(&w, &format!("distance {a} {b} {ha} {hb}"), &target, &mut out);
            }
            _ => {
                let replcand = rng.chance(1, 8);
                let ti = if replcand && rng.chance(1, 3) { 40 } else { rng.below(w.addrs.len() as u64) as usize };
                target = w.addrs[ti].1.clone();
                out.line(format!("target {ti}"), "bad-op");
                let npeers = *rng.pick(&[0usize, 1, 4, 5, 6, 8, 12, 20, 24]);
                let mut idx: Vec<usize> = (0..w.peers.len()).collect();
                rng.shuffle(&mut idx);
                idx.truncate(npeers);
                if rng.chance(1, 10) && !idx.is_empty() {
                    idx.push(idx[0]); // a duplicate peer
                }
                let pl = peers_line(&w, &target, &idx);
                // bind: the model derives the same distances from the raw address bytes with its own SHA-256; the
                // `id:dist` pairs of the peer-list op that follows must agree with them
                {
                    let mut uniq = idx.clone();
                    uniq.sort();
                    uniq.dedup();
                    let b: Vec<String> = uniq.iter().map(|i| format!("{i}={}", hex(&NetworkAddress::from_peer(w.peers[*i]).as_bytes()))).collect();
                    run(&w, &format!("bind {} {}", hex(&target.as_bytes()), b.join(" ")).trim_end().to_string(), &target, &mut out);
                }
                // range bounds around every element
                let ht = digest(&target.as_bytes());
                let mut bounds: Vec<BigUint> = vec![BigUint::from(0u8), (BigUint::from(1u8) << 256) - BigUint::from(1u8)];
                for i in &idx {
                    let d = xor(&ht, &digest(&NetworkAddress::from_peer(w.peers[*i]).as_bytes()));
                    bounds.push(d.clone());
                    bounds.push(&d + BigUint::from(1u8));
                    if d > BigUint::from(0u8) {
                        bounds.push(&d - BigUint::from(1u8));
                    }
                }
                let bound = rng.pick(&bounds).clone();
                let count = rng.below(npeers as u64 + 3);
                if rng.chance(1, 14) {
                    // storage challenge, responder side: a node holding some of the world's chunks is asked for the
                    // `difficulty` nearest the key
                    // the key: an address of the world, or (half of the cases, and whenever difficulty is 1) one of the chunks
                    let dfc = *rng.pick(&[0usize, 1, 1, 2, 3, 4, 5, 6, 9]);
                    let key_chunk: Option<usize> = if dfc == 1 || rng.chance(1, 2) { Some(rng.below(w.chunks.len() as u64) as usize) } else { None };
                    if let Some(kc) = key_chunk {
                        target = w.chunks[kc].clone();
                        out.line(format!("target c{kc}"), "bad-op");
                    }
                    let nheld = *rng.pick(&[0usize, 1, 3, 5, 6, 12, 40, 60]);
                    let mut cidx: Vec<usize> = (0..w.chunks.len()).collect();
                    rng.shuffle(&mut cidx);
                    cidx.truncate(nheld);
                    // the key is held in about half of the difficulty-1 cases
                    if let Some(kc) = key_chunk {
                        if dfc == 1 && rng.chance(1, 2) && !cidx.contains(&kc) {
                            cidx.push(kc);
                        }
                    }
                    let ht = digest(&target.as_bytes());
                    let line: Vec<String> = cidx.iter().map(|i| format!("{}:{}", i, xor(&ht, &digest(&w.chunks[*i].as_bytes())))).collect();
                    let mut u = cidx.clone();
                    u.sort();
                    let b: Vec<String> = u.iter().map(|i| format!("{i}={}", hex(&w.chunks[*i].as_bytes()))).collect();
                    run(&w, &format!("bind {} {}", hex(&target.as_bytes()), b.join(" ")).trim_end().to_string(), &target, &mut out);
                    let k = key_chunk.map(|k| k.to_string()).unwrap_or_else(|| "-".into());
                    run(&w, &format!("proofresp {dfc} {k} {}", line.join(" ")).trim_end().to_string(), &target, &mut out);
                    continue;
                }
                if rng.chance(1, 40) {
                    // the producer of the range: a running node driver whose routing table holds these peers
                    target = w.addrs[40].1.clone();
                    out.line("target 40".to_string(), "bad-op");
                    let mut uniq = idx.clone();
                    uniq.sort();
                    uniq.dedup();
                    if uniq.len() < 7 && rng.chance(2, 3) {
                        continue; // nothing is set below 7 peers; each such case costs a time-out
                    }
                    let b: Vec<String> = uniq.iter().map(|i| format!("{i}={}", hex(&NetworkAddress::from_peer(w.peers[*i]).as_bytes()))).collect();
                    let line = format!("derive-range {} 0 {}", uniq.len(), peers_line(&w, &target, &uniq)).trim_end().to_string();
                    let probe = catch_unwind(AssertUnwindSafe(|| exec(&w, &line, &target))).unwrap_or_else(|_| "panic".into());
                    if !probe.starts_with("refused") {
                        run(&w, &format!("bind {} {}", hex(&target.as_bytes()), b.join(" ")).trim_end().to_string(), &target, &mut out);
                        run(&w, &line, &target, &mut out);
                    }
                    continue;
                }
                if replcand {
                    // distinct peers only (a routing table holds a peer once)
                    let mut uniq = idx.clone();
                    uniq.sort();
                    uniq.dedup();
                    let pl = peers_line(&w, &target, &uniq);
                    let r = if rng.chance(1, 6) { "-".to_string() } else { bound.to_string() };
                    let line = format!("replcand {r} {pl}");
                    // a peer the k-bucket refuses cannot be in the routing table: skip such a table
                    let probe = catch_unwind(AssertUnwindSafe(|| exec(&w, &line, &target))).unwrap_or_else(|_| "panic".into());
                    if !probe.starts_with("refused") {
                        run(&w, &line, &target, &mut out);
                    }
                    continue;
                }
                match rng.below(5) {
                    4 => {
                        // self among the answers at a seeded position (often among the nearest), or absent
                        let me = if !idx.is_empty() && rng.chance(3, 4) { *rng.pick(&idx) } else { rng.below(w.peers.len() as u64) as usize };
                        run(&w, &format!("closegroup {} {me} {pl}", rng.below(2)), &target, &mut out)
                    }
                    0 => run(&w, &format!("sort {count} {pl}"), &target, &mut out),
                    1 => run(&w, &format!("inrange {bound} {pl}"), &target, &mut out),
                    2 => run(&w, &format!("closest {count} - {pl}"), &target, &mut out),
                    _ => {
                        let n = if rng.chance(1, 2) { "-".to_string() } else { count.to_string() };
                        let r = if rng.chance(1, 5) { "-".to_string() } else { bound.to_string() };
                        run(&w, &format!("closest {n} {r} {pl}"), &target, &mut out)
                    }
                }
            }
        }
    }
    let _ = u256_of;
    out.finish();
}
